"""C16 -- primitive decoders invert the standard encodings and consume exact lengths.

Decides (DESIGN.md §3 C16): L-PRIM for the 24 fixed-width macros and FormatField's exact read; 24-bit integers;
LEB128 loop summaries (one byte per iteration, 7-bit payload, shift step, continuation test on the byte just
consumed, sign extension, short read raises FieldError, immediate return); initial length (shared with C04);
RepeatUntilExcluding / PrefixedArray / CString structure; error wrapping and the exception class table;
parse_cstring_from_stream chunk-loop structure.
"""
import ast
import re
from sa.canon import U
from sa.world import get_world
from sa import wrap, layout, expr, paths, streams, dispatch, dwconf
from sa.report import AnalysisError

CU = 'common/construct_utils.py'
UT = 'common/utils.py'


def run(ctx):
    w = get_world(ctx)
    ctx.explanation.append(
        'C16: every {U,S}{B,L,N}Int{8..64} macro returns FormatField with the endianness/format characters its name promises, '
        'FormatField reads packer.size bytes through _read_stream which raises FieldError on a short read (L-PRIM); 24-bit '
        'packers and recombination (L-INT24); LEB128 loop summaries of ULEB128, SLEB128 (L-LEB); initial-length decision '
        'table (E-ii); RepeatUntilExcluding/PrefixedArray/CString structure (L-REP); struct_parse wraps ConstructError into '
        'ELFParseError and every primitive error derives from ConstructError (K-WRAP); C-string chunk loop (L-CSTR).')
    ctx.assumptions += ['struct.Struct.unpack decodes as documented (CPython)', 'decoded values for concrete encodings are runtime quantities']
    for r, d in (('L-PRIM', 'integer macros decode what their name promises'), ('L-INT24', '24-bit integer recombination'),
                 ('L-LEB', 'LEB128 loop summary'), ('E-ii', 'initial-length decision table'), ('L-REP', 'repeat/prefixed/cstring structure'),
                 ('K-WRAP', 'construct errors surface as ELFParseError'), ('L-CSTR', 'chunked C-string reader')):
        ctx.rule(r, d)
    ctx.guard('L-PRIM', 'macros', layout.prim_table, w, ctx)
    ctx.guard('L-PRIM', 'FormatField', layout.check_formatfield, w, ctx)
    ctx.floor('L-PRIM', 28)
    ctx.guard('L-INT24', 'int24', check_int24, ctx, w)
    ctx.floor('L-INT24', 8)
    ctx.guard('L-LEB', 'ULEB128', check_leb, ctx, w, CU, 'ULEB128._parse', False)
    ctx.guard('L-LEB', 'SLEB128', check_leb, ctx, w, CU, 'SLEB128._parse', True)
    ctx.floor('L-LEB', 16)
    from props import C04
    ctx.guard('E-ii', 'initial length', C04.check_initlen, ctx, w)
    ctx.floor('E-ii', 8)
    ctx.guard('L-REP', 'repeat', check_repeat, ctx, w)
    ctx.floor('L-REP', 8)
    ctx.guard('K-WRAP', 'wrapping', check_wrap, ctx, w)
    ctx.floor('K-WRAP', 10)
    ctx.guard('L-CSTR', 'cstring', check_cstr, ctx, w)
    ctx.floor('L-CSTR', 6)
    ctx.rule('I-ACC', 'a running total that positions the stream after a decoding loop is accumulated, not overwritten')
    ctx.guard('I-ACC', 'accumulators', check_acc, ctx, w)
    ctx.floor('I-ACC', 2)
    ctx.rule('L-ORIGIN', 'every primitive decoder named by the struct tables resolves to its one definition')
    ctx.guard('L-ORIGIN', 'origins', check_origin, ctx, w)
    ctx.floor('L-ORIGIN', 20)


def _neutral(v):
    return (isinstance(v, ast.Constant) and not isinstance(v.value, bool) and v.value in (0, b'', '')) or \
        (isinstance(v, (ast.List, ast.Dict)) and not (getattr(v, 'elts', None) or getattr(v, 'keys', None)))


def overwritten_accumulators(fnode):
    """[(name, assignment)]: a local set to a neutral element (0, '', b'', [], {}) right before a loop, assigned inside the loop from an
    expression that does not read it (and is not a constant: a flag), and read after the loop.  The initialisation states the belief
    "this is a running total"; the assignment contradicts it as soon as the loop runs twice (Engler et al.: contradicting beliefs)."""
    out = []

    def scan(stmts):
        for i, st in enumerate(stmts):
            if isinstance(st, (ast.For, ast.While)):
                init = {}
                for pst in stmts[:i]:
                    if isinstance(pst, ast.Assign) and len(pst.targets) == 1 and isinstance(pst.targets[0], ast.Name) and _neutral(pst.value):
                        init[pst.targets[0].id] = pst
                for n in ast.walk(st):
                    if isinstance(n, ast.Assign) and len(n.targets) == 1 and isinstance(n.targets[0], ast.Name) and n.targets[0].id in init:
                        v = n.targets[0].id
                        reads_self = any(isinstance(x, ast.Name) and x.id == v for x in ast.walk(n.value))
                        used_after = any(isinstance(x, ast.Name) and x.id == v and isinstance(x.ctx, ast.Load) for a in stmts[i + 1:] for x in ast.walk(a))
                        if not reads_self and not isinstance(n.value, ast.Constant) and not _neutral(n.value) and used_after:
                            out.append((v, n))
            for fld in ('body', 'orelse', 'finalbody'):
                b = getattr(st, fld, None)
                if isinstance(b, list) and b and isinstance(b[0], ast.stmt) and not isinstance(st, (ast.FunctionDef, ast.ClassDef)):
                    scan(b)
            for h in getattr(st, 'handlers', []) or []:
                scan(h.body)
    scan(fnode.body)
    return out


ACC_SAMPLE = '''
def _parse(self, stream, context):
    start = stream.tell()
    skipped = 0
    while True:
        chunk = stream.read(64)
        end = chunk.find(b'\\x00')
        if end >= 0:
            break
        skipped = len(chunk)
    stream.seek(start + skipped + end + 1)
'''


def check_acc(ctx, w):
    # the rule expects no instance on a correct tree, so it first has to find the one in its own sample
    hit = overwritten_accumulators(ast.parse(ACC_SAMPLE).body[0])
    ctx.ob('I-ACC', 'built-in sample', 'the rule fires on its positive example', [v for v, n in hit] == ['skipped'], got=hit)
    n = 0
    for f in w.model.library_funcs():
        if not any(f.mod.endswith(m) or ('/' + m) in f.mod for m in ('common/construct_utils.py', 'common/utils.py', 'construct/core.py', 'construct/macros.py',
                                                                      'construct/adapters.py', 'dwarf/structs.py', 'elf/structs.py', 'dwarf/dwarf_util.py')):
            continue
        n += 1
        for v, a in overwritten_accumulators(f.node):
            ctx.ob('I-ACC', f.construct, 'running total %s' % v, False, got=U(a), line=a.lineno,
                   msg='a counter initialised as a running total before the decoding loop is overwritten inside it: after the second iteration it '
                       'no longer counts what was consumed, so the bytes taken differ from the length of the encoding')
    ctx.ob('I-ACC', 'decoder modules', 'functions scanned for overwritten running totals', n > 50, sample='%d functions' % n, got=n)


# one definition per primitive decoder: the L-* rules above vouch for these definitions; a struct table that binds the same name to
# another implementation is decoded by code no rule has looked at
PRIM_HOME = {
    'ULEB128': 'common/construct_utils.py', 'SLEB128': 'common/construct_utils.py', 'ULInt24': 'common/construct_utils.py', 'UBInt24': 'common/construct_utils.py',
    'RepeatUntilExcluding': 'common/construct_utils.py', 'StreamOffset': 'common/construct_utils.py',
    'CString': 'construct/macros.py', 'PrefixedArray': 'construct/macros.py', 'String': 'construct/macros.py', 'Array': 'construct/macros.py',
    'StaticField': 'construct/core.py', 'FormatField': 'construct/core.py', 'Struct': 'construct/core.py',
}
for _e in ('B', 'L', 'N'):
    for _s in ('U', 'S'):
        for _b in (8, 16, 32, 64):
            PRIM_HOME['%s%sInt%d' % (_s, _e, _b)] = 'construct/macros.py'


def check_origin(ctx, w):
    defs = {}
    for rel, tree in w.model.trees.items():
        if not rel.startswith('elftools/'):
            continue
        for n in tree.body:
            if isinstance(n, (ast.FunctionDef, ast.ClassDef)) and n.name in PRIM_HOME:
                defs.setdefault(n.name, []).append(rel.replace('elftools/', ''))
            elif isinstance(n, ast.Assign):
                for t in n.targets:
                    if isinstance(t, ast.Name) and t.id in PRIM_HOME:
                        defs.setdefault(t.id, []).append(rel.replace('elftools/', ''))
    for name, home in sorted(PRIM_HOME.items()):
        got = sorted(defs.get(name, []))
        if got == [home]:
            ctx.ob('L-ORIGIN', 'primitive ' + name, 'defined once, in ' + home, True, sample='%s defined in %s only' % (name, home))
        else:
            # not a violation in itself (a second implementation may be correct): the property cannot be vouched for -> exit 2
            ctx.error('L-ORIGIN', 'primitive ' + name, 'defined in %s (expected: %s only): a struct table may now be decoded by an implementation '
                      'none of the decoder rules has examined' % (got, home))


def _defaults(fn):
    """parameter -> default text (annotations are not part of it)"""
    pos = fn.args.posonlyargs + fn.args.args
    out = {a.arg: U(d) for a, d in zip(pos[len(pos) - len(fn.args.defaults):], fn.args.defaults)}
    out.update({a.arg: U(d) for a, d in zip(fn.args.kwonlyargs, fn.args.kw_defaults) if d is not None})
    return out


def check_int24(ctx, w):
    tree = w.model.tree(CU)
    packers = {}
    for st in tree.body:
        if isinstance(st, ast.Assign) and isinstance(st.value, ast.Call) and isinstance(st.value.func, ast.Name) and st.value.func.id == 'Struct' \
                and st.value.args and isinstance(st.value.args[0], ast.Constant):
            packers[st.targets[0].id] = st.value.args[0].value
    for cls, endian in (('UBInt24', '>'), ('ULInt24', '<')):
        f = w.model.func(CU, cls + '._parse')
        init = w.model.func(CU, cls + '.__init__')
        ok = 'StaticField.__init__(self, name, 3)' in U(init.node)
        ctx.ob('L-INT24', init.construct, 'three bytes', ok, msg='24-bit integer does not read exactly 3 bytes')
        # the bytes come from the exact-length primitive (StaticField._parse -> _read_stream: FieldError on a short read), never
        # from a bare stream.read, whatever is done with them afterwards
        bare = [c for c in ast.walk(f.node) if isinstance(c, ast.Call) and isinstance(c.func, ast.Attribute) and c.func.attr == 'read' and
                isinstance(c.func.value, ast.Name) and c.func.value.id == 'stream']
        exact = [c for c in ast.walk(f.node) if isinstance(c, ast.Call) and U(c.func) in ('StaticField._parse', 'super()._parse', '_read_stream')]
        ctx.ob('L-INT24', f.construct, 'bytes read through the exact-length primitive', bool(exact) and not bare, got=[U(c) for c in bare + exact],
               msg='a 24-bit field read with a bare stream.read decodes a truncated field to a smaller number instead of failing with FieldError')
        asg = [n for n in ast.walk(f.node) if isinstance(n, ast.Assign) and isinstance(n.targets[0], ast.Tuple)]
        if len(asg) != 1:
            if exact and not bare:
                raise AnalysisError('L-INT24', f.construct, 'unpack assignment not found')
            continue
        names = [e.id for e in asg[0].targets[0].elts]
        call = asg[0].value
        pk = call.func.value.id if isinstance(call.func, ast.Attribute) and isinstance(call.func.value, ast.Name) else None
        fmt = packers.get(pk)
        ctx.ob('L-INT24', f.construct, 'packer byte order', fmt is not None and fmt[0] == endian, got=fmt, expected=endian + '..',
               msg='24-bit packer has the wrong byte order')
        ctx.ob('L-INT24', f.construct, 'unpacks the 3 bytes read', 'StaticField._parse(self, stream, context)' in U(call))
        if fmt is None:
            continue
        items = list(fmt[1:])
        ctx.ob('L-INT24', f.construct, 'packer items are one byte and one half', sorted(items) == ['B', 'H'], got=items)
        # big endian: high byte first (B then H); little endian: low half first (H then B)
        ctx.ob('L-INT24', f.construct, 'item order matches the byte order', items == (['B', 'H'] if endian == '>' else ['H', 'B']), got=items,
               msg='the byte and the half are in the wrong order for this endianness')
        env = expr.FEnv(f.node, inline=False)
        rets = [expr.nf(r.value, env) for r in expr.returns_of(f.node)]
        if len(rets) != 1 or len(items) != 2:
            continue
        hi = names[items.index('B')]
        lo = names[items.index('H')]
        want = expr.pstr(expr.nf(ast.parse('%s | (%s << 16)' % (lo, hi), mode='eval').body))
        ctx.ob('L-INT24', f.construct, 'value = half | (byte << 16)', expr.pstr(rets[0]) == want, got=expr.pstr(rets[0]), expected=want,
               msg='the single byte must be the most significant part (shifted by 16)',
               sample='%s: %s with format %s' % (cls, want, fmt))


LEB_CONT_OK = None


def check_leb(ctx, w, mod, q, signed):
    f = w.model.func(mod, q)
    env = expr.FEnv(f.node, params=('stream', 'context'), inline=False)
    whiles = [n for n in ast.walk(f.node) if isinstance(n, ast.While)]
    if len(whiles) != 1:
        raise AnalysisError('L-LEB', f.construct, 'decoder loop not found')
    body = whiles[0].body
    tr = expr.assign_trace(f.node, env)
    ctx.ob('L-LEB', f.construct, 'one byte consumed per iteration', tr.get('data') == [('=', 'read(stream,1)')] and
           len([o for o in streams.func_ops(f.node, env) if o.kind == 'read']) == 1, got=tr.get('data'),
           msg='LEB128 decoder must read exactly one byte per iteration', sample='%s: data = read(stream,1)' % q)
    ctx.ob('L-LEB', f.construct, 'byte under test is the byte just read', tr.get('b') == [('=', 'index(data,0)')], got=tr.get('b'))
    ctx.ob('L-LEB', f.construct, 'payload mask 0x7f shifted by the counter', tr.get('value') == [('=', '0'), ('|=', expr.spec_nf('(b & 0x7F) << shift'))],
           got=tr.get('value'), expected=[('=', '0'), ('|=', expr.spec_nf('(b & 0x7F) << shift'))], msg='payload is not the low 7 bits placed at the current shift')
    ctx.ob('L-LEB', f.construct, 'shift grows by 7', tr.get('shift') == [('=', '0'), ('+=', '7')], got=tr.get('shift'))
    # one iteration, over paths: read; a short read raises FieldError before anything else; otherwise byte, accumulate, shift,
    # and only then the continuation test on that byte -- clear bit 7 returns at once, set bit 7 goes round again
    short = expr.CP(expr.spec_cond('len(data) != 1'), True)
    accepted = [expr.CP(expr.spec_cond(t), True) for t in ('b & 0x80 == 0', 'b < 0x80')] + [expr.CP('T(and_(128,b))', False)]
    seen = set()
    ok_short = ok_order = ok_term = True
    rets = []
    why = None
    for p in paths.enum_paths(body):
        ev = expr.path_events(p, env)
        stm = [x[1] for x in ev if x[0] == 's']
        cs = [x[1] for x in ev if x[0] == 'c']
        if not ev or ev[0] != ('s', 'data = stream.read(1)') or not cs or cs[0][0] != short[0] or ev[1] != ('c', cs[0]):
            ok_order, why = False, ev
            continue
        if cs[0] == short:
            seen.add('short')
            if not (p.end[0] == 'raise' and p.end[1] is not None and 'FieldError' in U(p.end[1]) and len(stm) <= 2):
                ok_short, why = False, ev
            continue
        mid = [x for x in stm[1:] if not x.startswith('return')]
        if [m.split(' ')[0] + ' ' + m.split(' ')[1] for m in mid] != ['b =', 'value |=', 'shift +=']:
            ok_order, why = False, ev
        if len(cs) != 2 or not any(cs[1][0] == a[0] for a in accepted):
            ok_term, why = False, ev
            continue
        clear = any(cs[1] == a for a in accepted)
        # the test comes after the shift advanced
        if ev.index(('c', cs[1])) < max(i for i, x in enumerate(ev) if x[0] == 's' and x[1].startswith('shift +=')):
            ok_order, why = False, ev
        if clear:
            seen.add('last')
            if p.end[0] != 'return':
                ok_term, why = False, ev
            else:
                rets.append(expr.nfs(p.end[1], env))
        else:
            seen.add('more')
            if p.end[0] != 'fall':
                ok_term, why = False, ev
    ctx.ob('L-LEB', f.construct, 'short read raises FieldError', ok_short and 'short' in seen, got=why, msg='truncated LEB128 is not reported with FieldError')
    ctx.ob('L-LEB', f.construct, 'terminates on the byte whose bit 7 is clear', ok_term and {'last', 'more'} <= seen, got=why or sorted(seen),
           msg='continuation test must be bit 7 of the byte just consumed')
    ctx.ob('L-LEB', f.construct, 'loop order read, short-check, byte, accumulate, shift, terminate', ok_order, got=why,
           msg='the terminating test must come after the byte was accumulated and the shift advanced')
    rets = sorted(set(rets))
    if signed:
        want = expr.spec_nf('value | (~0 << shift) if b & 0x40 else value')
        ctx.ob('L-LEB', f.construct, 'sign extension: bit 6 of the last byte, ~0 << shift', rets == [want], got=rets, expected=want,
               msg='SLEB128 sign test/extension differs from DWARF §7.6', sample='SLEB128 returns ' + want)
    else:
        ctx.ob('L-LEB', f.construct, 'returns the accumulated value immediately', rets == ['value'], got=rets)
    ctx.ob('L-LEB', f.construct, 'no minimality test / no other exit', len([n for n in ast.walk(f.node) if isinstance(n, (ast.Return, ast.Raise, ast.Break))]) == 2)


def check_repeat(ctx, w):
    f = w.model.func(CU, 'RepeatUntilExcluding._parse')
    env = expr.FEnv(f.node, params=('stream', 'context'), inline=False)
    whiles = [n for n in ast.walk(f.node) if isinstance(n, ast.While)]
    # one iteration: the element is parsed first; predicate true -> loop left without appending; false -> appended, next round
    seen = set()
    ok = bool(whiles)
    why = None
    pred = 'T(predicate(self,subobj,context))'
    for p in (paths.enum_paths(whiles[0].body) if whiles else []):
        ev = expr.path_events(p, env)
        stm = [x[1] for x in ev if x[0] == 's']
        cs = [x[1] for x in ev if x[0] == 'c']
        good = bool(ev) and ev[0] == ('s', 'subobj = self.subcon._parse(stream, context_for_subcon)') and len(cs) == 1 and cs[0][0] == pred
        if good and cs[0][1]:
            seen.add('stop')
            good = stm[1:] == [] and p.end[0] == 'break'
        elif good:
            seen.add('keep')
            good = stm[1:] == ['obj.append(subobj)'] and p.end[0] == 'fall'
        if not good:
            ok, why = False, ev
    ctx.ob('L-REP', f.construct, 'parse, test predicate, then append (terminator excluded)', ok and seen == {'stop', 'keep'}, got=why or sorted(seen),
           msg='the terminating element must be consumed but not included')
    ok = any(isinstance(h, ast.ExceptHandler) and 'ConstructError' in U(h.type) and 'ArrayError' in U(h) for h in ast.walk(f.node))
    ctx.ob('L-REP', f.construct, 'errors wrapped as ArrayError', ok)
    ctx.ob('L-REP', f.construct, 'returns the collected list', [expr.nfs(r.value, env) for r in expr.returns_of(f.node)] == ['obj'])
    g = w.model.func(CU, 'StreamOffset._parse')
    ctx.ob('L-REP', g.construct, 'captures tell() and consumes nothing', [U(s) for s in g.node.body] == ['return stream.tell()'])
    tree = w.model.tree('construct/macros.py')
    pa = [n for n in tree.body if isinstance(n, ast.FunctionDef) and n.name == 'PrefixedArray'][0]
    src = U(pa)
    ctx.ob('L-REP', 'construct/macros.py:PrefixedArray', 'length field, then exactly that many elements',
           'Sequence(subcon.name, length_field, Array(lambda ctx: ctx[name], subcon), nested=False)' in src and 'name = length_field.name' in src, got=src[-200:])
    cs = [n for n in tree.body if isinstance(n, ast.FunctionDef) and n.name == 'CString'][0]
    src = U(cs)
    ctx.ob('L-REP', 'construct/macros.py:CString', 'single characters until a terminator', 'RepeatUntil(lambda obj, ctx: obj in terminators, char_field)' in src and
           _defaults(cs).get('terminators') == "b'\\x00'" and _defaults(cs).get('char_field') == 'Field(None, 1)', got=src[:150])
    h = w.model.func('dwarf/structs.py', 'DWARFStructs._make_block_struct')
    got = [expr.nfs(r.value, expr.FEnv(h.node, params=('length_field',))) for r in expr.returns_of(h.node)]
    ctx.ob('L-REP', h.construct, 'block = length field + that many bytes', got == ["PrefixedArray(subcon=Dwarf_uint8(self,'elem'),length_field=length_field(''))"], got=got)
    # block forms resolve to prefixed[len]{u8}
    for le in (True, False):
        st = dwconf.structs_for(w, le, 32, 4, 4)
        e = '<' if le else '>'
        tab = st.attrs['Dwarf_dw_form']
        for form, ln in (('DW_FORM_block1', 'u8' + e), ('DW_FORM_block2', 'u16' + e), ('DW_FORM_block4', 'u32' + e), ('DW_FORM_block', 'uleb'), ('DW_FORM_exprloc', 'uleb')):
            got = dwconf.atom_of(w, tab[form])
            ctx.ob('L-REP', 'dwarf/structs.py:DWARFStructs._create_dw_form', '%s [%s]' % (form, 'LSB' if le else 'MSB'), got == 'prefixed[%s]{u8%s}' % (ln, e), got=got)


def check_wrap(ctx, w):
    f = w.model.func(UT, 'struct_parse')
    facts = wrap.wrap_facts(f.node)
    ctx.ob('K-WRAP', f.construct, 'the result of struct.parse_stream(stream) is returned from inside a try', facts['parse_is_parse_stream_of_args'] and facts['returns_parse_result'], got=facts)
    ctx.ob('K-WRAP', f.construct, 'ConstructError -> ELFParseError', facts['parse_construct_error_converted'] and facts['no_handler_swallows'], got=facts,
           msg='a construct error (short read, bad mapping, range) must surface as ELFParseError, and no handler may swallow it')
    ctx.ob('K-WRAP', f.construct, 'absolute seek iff a position is given', facts['seek_is_absolute_to_position'] and facts['seek_iff_position_given'], got=facts)
    for cn in ('FieldError', 'ArrayError', 'AdaptationError', 'MappingError', 'RangeError', 'SwitchError', 'SizeofError', 'PaddingError'):
        lst = w.model.classes.get(cn, [])
        ok = len(lst) >= 1 and all(c.is_subclass_of('ConstructError') for c in lst)
        ctx.ob('K-WRAP', 'construct:' + cn, 'derives from ConstructError', ok, msg='a primitive error class would escape struct_parse unwrapped')
    for cn in ('ELFParseError', 'ELFRelocationError', 'DWARFError', 'ELFCompressionError'):
        lst = w.model.classes.get(cn, [])
        ok = len(lst) == 1 and (lst[0].is_subclass_of('ELFError') or cn == 'DWARFError')
        ctx.ob('K-WRAP', 'common/exceptions.py:' + cn, 'derives from ELFError', ok)
    # short reads inside the primitives raise subclasses of ConstructError
    for mod, q in ((CU, 'ULEB128._parse'), (CU, 'SLEB128._parse')):
        g = w.model.func(mod, q)
        rs = [U(n.exc.func) for n in ast.walk(g.node) if isinstance(n, ast.Raise) and isinstance(n.exc, ast.Call)]
        ctx.ob('K-WRAP', g.construct, 'raises FieldError only', rs == ['FieldError'], got=rs)


def check_cstr(ctx, w):
    f = w.model.func(UT, 'parse_cstring_from_stream')
    env = expr.FEnv(f.node, params=('stream', 'stream_pos'), inline=False)
    tr = expr.assign_trace(f.node, env)
    ctx.ob('L-CSTR', f.construct, 'chunk = read(CHUNKSIZE)', tr.get('chunk') == [('=', 'read(stream,CHUNKSIZE)')], got=tr.get('chunk'))
    ctx.ob('L-CSTR', f.construct, 'terminator searched in the chunk', tr.get('end_index') == [('=', "find(chunk,b'\\x00')")], got=tr.get('end_index'))
    whiles = [n for n in ast.walk(f.node) if isinstance(n, ast.While)]
    body = whiles[0].body if whiles else []
    # whole-function paths (loop entered once), values read off each path: the terminator found in the chunk -> the prefix is the
    # last thing kept and the joined chunks are returned; not found -> the whole chunk is kept, and a short chunk returns None
    # while a full chunk goes round again.  Stated over paths and path values, so `break` + flag and direct returns are the same.
    found_c, short_c = expr.spec_cond('end_index >= 0'), expr.spec_cond('len(chunk) < CHUNKSIZE')
    seen = set()
    ok = True
    why = None
    lp = whiles[0] if whiles else None
    for p in paths.func_paths(f.node):
        if lp is None or not any(e[0] == 'loop' and e[1] is lp and e[2] == 'enter' for e in p.events):
            continue
        facts = expr.Facts(expr.CP(expr.cond_str(t, env), pol) for t, pol in p.conds())
        inloop = []
        on = False
        for e in p.events:
            if e[0] == 'loop' and e[1] is lp and e[2] == 'enter':
                on = True
            elif e[0] == 'loopend' and e[1] is lp:
                on = False
            elif on and e[0] == 'stmt':
                inloop.append(U(e[1]).split('\n')[0])
        head = inloop[:2] == ['chunk = stream.read(CHUNKSIZE)', "end_index = chunk.find(b'\\x00')"]
        appends = [x for x in inloop if x.startswith('chunks.append(')]
        fnd, shrt = facts.get(found_c), facts.get(short_c)
        val = expr.path_value(p, p.end[1], expr.FEnv()) if p.end[0] == 'return' and p.end[1] is not None else p.end[0]
        if fnd is True:
            seen.add('found')
            good = head and appends == ['chunks.append(chunk[:end_index])'] and val == "join(b'',[])".replace('[]', 'tuple()') or \
                (head and appends == ['chunks.append(chunk[:end_index])'] and val.startswith("join(b'',"))
        elif fnd is False and shrt is True:
            seen.add('short')
            good = head and appends == ['chunks.append(chunk)'] and val == 'None'
        elif fnd is False and shrt is False:
            seen.add('full')
            # goes round again: after one unrolling the path falls out of the modelled loop; what it returns is not this row's business
            good = head and appends == ['chunks.append(chunk)']
        else:
            good = False
        if not good:
            ok = False
            why = (dict(facts), inloop, val)
    ctx.ob('L-CSTR', f.construct, 'iteration: read, search; found: prefix kept and stop; else whole chunk kept; short chunk ends',
           ok and seen == {'found', 'short', 'full'}, got=why or sorted(seen),
           msg='string bytes must be exactly the bytes before the first NUL, whatever the chunking')
    ctx.ob('L-CSTR', f.construct, 'joined chunks or None', ok and {'found', 'short'} <= seen, got=why)
    pre = [U(s).split('\n')[0] for s in f.node.body if isinstance(s, ast.If)]
    ctx.ob('L-CSTR', f.construct, 'absolute seek iff a position is given', pre == ['if stream_pos is not None:'])
    ctx.ob('L-CSTR', f.construct, 'every iteration consumes the chunk it inspects (progress)', len([o for o in streams.func_ops(f.node, env) if o.kind == 'read']) == 1)


MUTANTS = [
    ('mask-ff', CU, "            value |= (b & 0x7F) << shift\n            shift += 7\n            if b & 0x80 == 0:\n                return value\n", "            value |= (b & 0xFF) << shift\n            shift += 7\n            if b & 0x80 == 0:\n                return value\n", 'L-LEB'),
    ('shift-8', CU, "            shift += 7\n            if b & 0x80 == 0:\n                return value | (~0 << shift)", "            shift += 8\n            if b & 0x80 == 0:\n                return value | (~0 << shift)", 'L-LEB'),
    ('sign-80', CU, "return value | (~0 << shift) if b & 0x40 else value", "return value | (~0 << shift) if b & 0x80 else value", 'L-LEB'),
    ('int24-shift', CU, "        (h, l) = _UBInt24_packer.unpack(StaticField._parse(self, stream, context))\n        return l | (h << 16)", "        (h, l) = _UBInt24_packer.unpack(StaticField._parse(self, stream, context))\n        return l | (h << 8)", 'L-INT24'),
    ('int24-fmt', CU, '_ULInt24_packer = Struct("<HB")', '_ULInt24_packer = Struct("<BH")', 'L-INT24'),
    ('int24-names', CU, "        (l, h) = _ULInt24_packer.unpack(", "        (h, l) = _ULInt24_packer.unpack(", 'L-INT24'),
    ('macro-fmt', 'construct/macros.py', 'def SLInt16(name: str) -> FormatField[int]:\n    """signed, little endian 16-bit integer"""\n    return FormatField(name, "<", "h")', 'def SLInt16(name: str) -> FormatField[int]:\n    """signed, little endian 16-bit integer"""\n    return FormatField(name, "<", "H")', 'L-PRIM'),
    ('macro-endian', 'construct/macros.py', 'return FormatField(name, ">", "Q")', 'return FormatField(name, "<", "Q")', 'L-PRIM'),
    ('reserved-le', 'dwarf/structs.py', "        if obj.first < 0xFFFFFF00:", "        if obj.first <= 0xFFFFFF00:", 'E-ii'),
    ('repeat-include', CU, "                if self.predicate(subobj, context):\n                    break\n                obj.append(subobj)", "                obj.append(subobj)\n                if self.predicate(subobj, context):\n                    break", 'L-REP'),
    ('wrap-gone', UT, "    except ConstructError as e:\n        raise ELFParseError(str(e))", "    except ConstructError as e:\n        raise", 'K-WRAP'),
    ('cstr-off-by-one', UT, "chunks.append(chunk[:end_index])", "chunks.append(chunk[:end_index + 1])", 'L-CSTR'),
    ('cstr-short', UT, "        if len(chunk) < CHUNKSIZE:\n            break", "        if len(chunk) <= CHUNKSIZE:\n            break", 'L-CSTR'),
    ('cont-next', CU, "            if b & 0x80 == 0:\n                return value\n", "            if b & 0x40 == 0:\n                return value\n", 'L-LEB'),
    ('short-read', 'construct/core.py', "    if len(data) != length:", "    if len(data) > length:", 'L-PRIM'),
    ('leb-two-bytes', CU, "            data = stream.read(1)\n            if len(data) != 1:\n                raise FieldError(\"unexpected end of stream while parsing a ULEB128 encoded value\")", "            data = stream.read(2)\n            if len(data) != 1:\n                raise FieldError(\"unexpected end of stream while parsing a ULEB128 encoded value\")", 'L-LEB'),
]
