"""C06 -- call-frame information is parsed and interpreted per DWARF/.eh_frame rules.

Decides (DESIGN.md §3 C06): CIE/FDE header layouts; entry discrimination and CIE pointer arithmetic; pointer
encoding table, augmentation fields, pc-relative adjustments; instruction split (G-EXH/G-SIG vs §7.24 operands);
interpretation: per instruction the rule constructed, operands and which alignment factor scales which operand,
row creation, restore / remember / restore_state; sibling agreement of factors with the describer; definite
assignment (R-DEF); linking under preserve_stream_pos; H-CUR.
"""
import ast
from sa.canon import U
from sa import canon
from sa.world import get_world
from sa import dwconf, layout, expr, paths, streams, dispatch, literals, hrules
from sa.absint import Ctor, Obj, FuncV, Unknown
from sa.report import AnalysisError
from sa.model import walk_no_nested
from spec import dwarf as D

CF = 'dwarf/callframe.py'
DS = 'dwarf/descriptions.py'
ATOM = {'the_Dwarf_uleb128': 'uleb', 'the_Dwarf_sleb128': 'sleb', 'the_Dwarf_uint8': 'u8', 'the_Dwarf_uint16': 'u16', 'the_Dwarf_uint32': 'u32',
        'the_Dwarf_target_addr': 'addr', "index(Dwarf_dw_form,'DW_FORM_block')": 'block', 'DW_FORM_block': 'block'}

# DWARF 5 §7.24 / §6.4.2: operands after the opcode byte (primary opcodes carry the low 6 bits as first argument)
OPERANDS = {
    'DW_CFA_advance_loc': ['low6'], 'DW_CFA_offset': ['low6', 'uleb'], 'DW_CFA_restore': ['low6'],
    'DW_CFA_nop': [], 'DW_CFA_set_loc': ['addr'], 'DW_CFA_advance_loc1': ['u8'], 'DW_CFA_advance_loc2': ['u16'], 'DW_CFA_advance_loc4': ['u32'],
    'DW_CFA_offset_extended': ['uleb', 'uleb'], 'DW_CFA_restore_extended': ['uleb'], 'DW_CFA_undefined': ['uleb'], 'DW_CFA_same_value': ['uleb'],
    'DW_CFA_register': ['uleb', 'uleb'], 'DW_CFA_remember_state': [], 'DW_CFA_restore_state': [], 'DW_CFA_def_cfa': ['uleb', 'uleb'],
    'DW_CFA_def_cfa_register': ['uleb'], 'DW_CFA_def_cfa_offset': ['uleb'], 'DW_CFA_def_cfa_expression': ['block'],
    'DW_CFA_expression': ['uleb', 'block'], 'DW_CFA_offset_extended_sf': ['uleb', 'sleb'], 'DW_CFA_def_cfa_sf': ['uleb', 'sleb'],
    'DW_CFA_def_cfa_offset_sf': ['sleb'], 'DW_CFA_val_offset': ['uleb', 'uleb'], 'DW_CFA_val_offset_sf': ['uleb', 'sleb'],
    'DW_CFA_val_expression': ['uleb', 'block'], 'DW_CFA_GNU_args_size': ['uleb'], 'DW_CFA_GNU_window_save': [],
    'DW_CFA_AARCH64_negate_ra_state': [],
}
A0, A1 = 'index(args,0)', 'index(args,1)'
CAF, DAF = 'code_alignment_factor', 'data_alignment_factor'
# interpretation: name -> (target, value normal form, factor, appends a row first)
REG = lambda kind, arg=None: 'RegisterRule(%s%s)' % (kind, (',' + arg) if arg else '')
INTERP = {
    'DW_CFA_set_loc': ('pc', ('=', A0), None, True),
    'DW_CFA_advance_loc': ('pc', ('+=', expr.spec_nf('%s * %s' % ('a0', CAF)).replace('a0', A0)), CAF, True),
    'DW_CFA_advance_loc1': ('pc', ('+=', None), CAF, True), 'DW_CFA_advance_loc2': ('pc', ('+=', None), CAF, True),
    'DW_CFA_advance_loc4': ('pc', ('+=', None), CAF, True),
    'DW_CFA_def_cfa': ('cfa', ('=', 'CFARule(reg=%s,offset=%s)' % (A0, A1)), None, False),
    'DW_CFA_def_cfa_sf': ('cfa', ('=', 'CFARule(reg=%s,offset=%s)' % (A0, '%s*%s' % (DAF, A1))), DAF, False),
    'DW_CFA_def_cfa_register': ('cfa', ('=', 'CFARule(reg=%s,offset=offset)' % A0), None, False),
    'DW_CFA_def_cfa_offset': ('cfa', ('=', 'CFARule(reg=reg,offset=%s)' % A0), None, False),
    'DW_CFA_def_cfa_offset_sf': ('cfa', ('=', 'CFARule(reg=reg,offset=%s*%s)' % (DAF, A0)), DAF, False),
    'DW_CFA_def_cfa_expression': ('cfa', ('=', 'CFARule(expr=%s)' % A0), None, False),
    'DW_CFA_undefined': ('reg', ('=', REG('UNDEFINED')), None, False),
    'DW_CFA_same_value': ('reg', ('=', REG('SAME_VALUE')), None, False),
    'DW_CFA_offset': ('reg', ('=', REG('OFFSET', '%s*%s' % (DAF, A1))), DAF, False),
    'DW_CFA_offset_extended': ('reg', ('=', REG('OFFSET', '%s*%s' % (DAF, A1))), DAF, False),
    'DW_CFA_offset_extended_sf': ('reg', ('=', REG('OFFSET', '%s*%s' % (DAF, A1))), DAF, False),
    'DW_CFA_val_offset': ('reg', ('=', REG('VAL_OFFSET', '%s*%s' % (DAF, A1))), DAF, False),
    'DW_CFA_val_offset_sf': ('reg', ('=', REG('VAL_OFFSET', '%s*%s' % (DAF, A1))), DAF, False),
    'DW_CFA_register': ('reg', ('=', REG('REGISTER', A1)), None, False),
    'DW_CFA_expression': ('reg', ('=', REG('EXPRESSION', A1)), None, False),
    'DW_CFA_val_expression': ('reg', ('=', REG('VAL_EXPRESSION', A1)), None, False),
}
EH_FIELDS = {'DW_EH_PE_absptr': 'addr', 'DW_EH_PE_uleb128': 'uleb', 'DW_EH_PE_udata2': 'u16', 'DW_EH_PE_udata4': 'u32', 'DW_EH_PE_udata8': 'u64',
             'DW_EH_PE_sleb128': 'sleb', 'DW_EH_PE_sdata2': 's16', 'DW_EH_PE_sdata4': 's32', 'DW_EH_PE_sdata8': 's64'}


def run(ctx):
    w = get_world(ctx)
    ctx.explanation.append(
        'C06: CIE (v1/3/4) and FDE layouts for all configurations (L-CONF); entry discrimination, ZERO terminator, CIE pointer '
        'arithmetic and entry extent in normal form (E-i); pointer-encoding table evaluated through the layout IR, augmentation '
        'letter table, pc-relative adjustments (G-TAB); instruction split: every DW_CFA constant has a branch with §7.24 operands '
        '(G-EXH/G-SIG); interpretation: rule constructed, operands, alignment factor, row creation per instruction vs §6.4.2, '
        'restore / remember / restore_state structure (G-INT); factor agreement with describe_CFI_instructions (SIB); definite '
        'assignment of the interpreter (R-DEF); CIE linking under preserve_stream_pos, cache keyed by offset (W-LINK); H-CUR.')
    ctx.assumptions += ['decoded tables for concrete instruction sequences are runtime quantities']
    for r, d in (('L-CONF', 'CIE/FDE layouts'), ('E-i', 'entry discrimination and offsets'), ('G-TAB', 'encoding/augmentation tables'),
                 ('G-EXH', 'every DW_CFA constant has a branch'), ('G-SIG', 'operands per instruction'), ('G-INT', 'interpretation effect per instruction'),
                 ('SIB', 'interpreter and describer use the same alignment factor'), ('R-DEF', 'no use of a possibly unassigned local'),
                 ('W-LINK', 'CIE linking and caching'), ('H-CUR', 'cursor discipline')):
        ctx.rule(r, d)
    cfgs = [c for c in dwconf.CONFIGS_QUICK if c[3] == 4]
    ctx.guard('L-CONF', 'CIE', dwconf.check_struct, ctx, w, 'Dwarf_CIE_header', D.cie_header, [{'version': v} for v in (1, 3, 4)], cfgs)
    ctx.guard('L-CONF', 'EH CIE', dwconf.check_struct, ctx, w, 'EH_CIE_header', D.cie_header, [{'version': v} for v in (1, 3)], cfgs)
    ctx.guard('L-CONF', 'FDE', dwconf.check_struct, ctx, w, 'Dwarf_FDE_header', D.FDE_HEADER, ({},), cfgs)
    ctx.floor('L-CONF', 320)
    ctx.guard('E-i', 'entries', check_entries, ctx, w)
    ctx.floor('E-i', 12)
    ctx.guard('G-TAB', 'tables', check_tables, ctx, w)
    ctx.floor('G-TAB', 30)
    ctx.guard('G-SIG', 'instructions', check_split, ctx, w)
    ctx.floor('G-SIG', 27)
    ctx.floor('G-EXH', 27)
    ctx.guard('G-INT', 'interpretation', check_interp, ctx, w)
    ctx.floor('G-INT', 40)
    ctx.floor('SIB', 10)
    ctx.guard('R-DEF', 'definite assignment', check_rdef, ctx, w)
    ctx.guard('W-LINK', 'linking', check_link, ctx, w)
    ctx.floor('W-LINK', 6)
    ctx.guard('H-CUR', 'cursor', hrules.run_h, ctx, w, [CF])


def check_entries(ctx, w):
    f = w.model.func(CF, 'CallFrameInfo._parse_entry_at')
    env = expr.FEnv(f.node, params=('offset',), inline=False)
    tr = expr.assign_trace(f.node, env)
    ctx.ob('E-i', f.construct, 'length word parsed at offset', tr.get('entry_length') == [('=', 'struct_parse(the_Dwarf_uint32,stream,offset)')], got=tr.get('entry_length'))
    ctx.ob('E-i', f.construct, 'format 64 iff length word == 0xffffffff', tr.get('dwarf_format') == [('=', expr.spec_nf('64 if entry_length == 0xFFFFFFFF else 32'))],
           got=tr.get('dwarf_format'))
    # the discriminator is peeked before the header is parsed: it must be read at the position the header layout gives the
    # CIE_id / CIE_pointer field in *each* format (4 in 32-bit DWARF, 12 after the 0xffffffff escape and the 8-byte length)
    cid = tr.get('CIE_id')
    rel_form = [('=', 'struct_parse(the_Dwarf_offset,stream)')]
    abs_form = [('=', 'struct_parse(the_Dwarf_offset,stream,%s)' % expr.spec_nf('offset + entry_structs.initial_length_field_size()'))]
    ctx.ob('E-i', f.construct, 'id/pointer field is offset-sized', cid in (rel_form, abs_form), got=cid)
    for fmt in (32, 64):
        for attr, fld in (('Dwarf_CIE_header', 'CIE_id'), ('Dwarf_FDE_header', 'CIE_pointer'), ('EH_CIE_header', 'CIE_id')):
            st = dwconf.structs_for(w, True, fmt, 8, 4)
            fl = layout.flatten(w, dwconf.irb(w).to_ir(layout.struct_attr(w, st, attr)), {} if 'FDE' in attr else {'version': 3})
            before = 0
            found = False
            for name, atom in fl:
                if name == fld:
                    found = True
                    break
                before += {'initlen': 4 if fmt == 32 else 12}.get(atom) or (int(atom[1:-1]) // 8 if atom[:1] in 'us' and atom[1:-1].isdigit() else 10 ** 6)
            if cid == abs_form:
                at = 4 if fmt == 32 else 12      # offset + initial_length_field_size() (decision table of that method: E-ii in C04/C16)
            elif cid == rel_form:
                at = 4                            # right after the 4-byte length word parsed at `offset`
            else:
                at = None
            ctx.ob('E-i', f.construct, 'DWARF%d: discriminator read at the header position of %s.%s (+%d)' % (fmt, attr, fld, before), found and at == before,
                   got=at, expected=before, msg='the CIE/FDE discriminator is read at a position that is not the field\'s position in this format: '
                   'a 64-bit entry is classified from the bytes of its own length field')
    want = [('=', expr.spec_cond('CIE_id == 0')), ('=', expr.spec_cond('(dwarf_format == 32 and CIE_id == 0xFFFFFFFF) or CIE_id == 0xFFFFFFFFFFFFFFFF'))]
    ctx.ob('E-i', f.construct, '.eh_frame: id 0 is a CIE; .debug_frame: all-ones id of the format', tr.get('is_CIE') == want, got=tr.get('is_CIE'), expected=want,
           msg='CIE/FDE discrimination differs from DWARF §6.4.1 / LSB')
    ifs = [n for n in walk_no_nested(f.node) if isinstance(n, ast.If)]
    zero = [n for n in ifs if expr.cond_str(n.test, env) == expr.spec_cond('for_eh_frame and entry_length == 0')]
    ctx.ob('E-i', f.construct, 'length 0 in .eh_frame is the terminator', len(zero) == 1 and [U(s) for s in zero[0].body] == ['return ZERO(offset)'])
    isfor = [n for n in ifs if expr.cond_str(n.test, env) == 'T(for_eh_frame)' and any('is_CIE' in U(s) for s in n.body)]
    ctx.ob('E-i', f.construct, 'discrimination selected by the section kind', len(isfor) == 1)
    ctx.ob('E-i', f.construct, 'end = offset + length + initial length size',
           tr.get('end_offset') == [('=', expr.spec_nf('offset + length + entry_structs.initial_length_field_size()'))], got=tr.get('end_offset'))
    ds = [c for c in ast.walk(f.node) if isinstance(c, ast.Call) and dispatch.callee_name(c) == 'DWARFStructs']
    kw = dict((k.arg, expr.nfs(k.value, env)) for k in ds[0].keywords) if ds else None
    ctx.ob('E-i', f.construct, 'entry structs: byte order and address size of the file, format of the entry',
           kw == {'little_endian': 'little_endian', 'dwarf_format': 'dwarf_format', 'address_size': 'address_size'}, got=kw)
    ctx.ob('E-i', f.construct, 'CIE header struct by section kind', tr.get('header_struct') == [('=', expr.spec_nf('EH_CIE_header if for_eh_frame else Dwarf_CIE_header'))],
           got=tr.get('header_struct'))
    hs = tr.get('header')
    ctx.ob('E-i', f.construct, 'header parsed at the entry offset', hs == [('=', 'struct_parse(header_struct,stream,offset)'), ('=', '_parse_fde_header(self,entry_structs,offset)')], got=hs)
    ins = tr.get('instructions')
    ctx.ob('E-i', f.construct, 'instructions from the current position to the entry end', ins == [('=', '_parse_instructions(self,entry_structs,tell(stream),end_offset)')], got=ins)
    lp = tr.get('lsda_pointer')
    want_l = [('=', expr.spec_nf('_parse_lsda_pointer(self, entry_structs, tell(stream) - len(aug_bytes), lsda_encoding)')), ('=', 'None')]
    ctx.ob('E-i', f.construct, 'LSDA pointer field offset = tell() - len(augmentation bytes)', lp == want_l, got=lp, expected=want_l)
    g = w.model.func(CF, 'CallFrameInfo._parse_cie_for_fde')
    genv = expr.FEnv(g.node, params=('fde_offset', 'fde_header', 'entry_structs'), inline=False)
    tr = expr.assign_trace(g.node, genv)
    want = [('=', expr.spec_nf('fde_offset + dwarf_format // 8 - cie_displacement')), ('=', 'CIE_pointer')]
    ctx.ob('E-i', g.construct, '.eh_frame: CIE = pointer field position - pointer; .debug_frame: absolute', tr.get('cie_offset') == want and
           tr.get('cie_displacement') == [('=', 'CIE_pointer')], got=tr.get('cie_offset'), expected=want,
           msg='.eh_frame CIE pointer is a backwards displacement from the pointer field (offset + size of the length field)')
    ifs = [n for n in g.node.body if isinstance(n, ast.If)]
    ctx.ob('E-i', g.construct, 'selected by the section kind', len(ifs) == 1 and expr.cond_str(ifs[0].test, genv) == 'T(for_eh_frame)')
    h = w.model.func(CF, 'CallFrameInfo._parse_entries')
    henv = expr.FEnv(h.node, inline=False)
    tr = expr.assign_trace(h.node, henv)
    whiles = [n for n in ast.walk(h.node) if isinstance(n, ast.While)]
    ctx.ob('E-i', h.construct, 'entries in section order until the section size',
           tr.get('offset') == [('=', '0'), ('=', 'tell(stream)')] and len(whiles) == 1 and expr.cond_str(whiles[0].test, henv) == expr.spec_cond('offset < size') and
           [U(s) for s in whiles[0].body] == ['entries.append(self._parse_entry_at(offset))', 'offset = self.stream.tell()'], got=tr.get('offset'))


def check_tables(ctx, w):
    interp = w.interp
    cv = interp.class_value(w.model.cls('CallFrameInfo'))
    fn = cv.attrs.get('_eh_encoding_to_field')
    flags = w.table('dwarf/enums.py', 'DW_EH_encoding_flags')
    for (le, fmt, asz, ver) in [c for c in dwconf.CONFIGS_QUICK if c[3] == 4]:
        st = dwconf.structs_for(w, le, fmt, asz, ver)
        tab = interp.call_func(fn, [st], {}, None) if isinstance(fn, FuncV) else None
        if not isinstance(tab, dict):
            raise AnalysisError('G-TAB', CF + ':CallFrameInfo._eh_encoding_to_field', 'table not evaluable')
        for name, want in sorted(EH_FIELDS.items()):
            code = flags.get(name)
            cons = tab.get(code)
            got = None
            if cons is not None:
                node = interp.call(cons, ['x'], {}, None)
                got = dwconf.atom_of(w, node)
            exp = dwconf.resolve([(None, want)], le, fmt, asz, ver)[0][1]
            ctx.ob('G-TAB', CF + ':CallFrameInfo._eh_encoding_to_field', '%s %s' % (name, dwconf.label(le, fmt, asz, ver)), got == exp, got=got, expected=exp,
                   msg='pointer encoding decoded with the wrong width/signedness (LSB eh_frame pointer encodings)',
                   sample='%s -> %s' % (name, exp))
        ctx.ob('G-TAB', CF + ':CallFrameInfo._eh_encoding_to_field', 'exactly the nine basic encodings ' + dwconf.label(le, fmt, asz, ver),
               set(tab) == set(flags[n] for n in EH_FIELDS), got=sorted(set(tab) ^ set(flags[n] for n in EH_FIELDS)))
    f = w.model.func(CF, 'CallFrameInfo._parse_cie_augmentation')
    env = expr.FEnv(f.node, params=('header', 'entry_structs'), inline=False)
    dicts = [n for n in ast.walk(f.node) if isinstance(n, ast.Dict) and n.keys and isinstance(n.keys[0], ast.Constant) and isinstance(n.keys[0].value, bytes)]
    got = {}
    if dicts:
        for k, v in zip(dicts[0].keys, dicts[0].values):
            got[k.value] = U(v).replace('\n', '')
    want = {b'z': "entry_structs.Dwarf_uleb128('length')", b'L': "entry_structs.Dwarf_uint8('LSDA_encoding')", b'R': "entry_structs.Dwarf_uint8('FDE_encoding')", b'S': 'True'}
    for k, v in sorted(want.items()):
        ctx.ob('G-TAB', f.construct, 'augmentation letter %r' % k, got.get(k) == v, got=got.get(k), expected=v, msg='augmentation data field for the letter differs from the LSB')
    p = got.get(b'P', '')
    ok = p.startswith("Struct('personality', entry_structs.Dwarf_uint8('encoding'), Switch('function', lambda ctx: ctx.encoding & 15, {enc: fld_cons('function')") and \
        'self._eh_encoding_to_field(entry_structs).items()' in p
    ctx.ob('G-TAB', f.construct, "letter b'P': u8 encoding + pointer by encoding & 0x0f", ok, got=p[:160])
    ctx.ob('G-TAB', f.construct, 'no other letters', set(got) == set(want) | {b'P'}, got=sorted(got))
    src = U(f.node)
    # an unknown letter leaves the letter loop (try/except KeyError: break, or a .get() that is tested for None and breaks)
    letter_loops = [l for l in ast.walk(f.node) if isinstance(l, ast.For) and 'available_fields' in U(l)]
    stops = False
    for l in letter_loops:
        for h in ast.walk(l):
            if isinstance(h, ast.ExceptHandler) and h.type is not None and 'KeyError' in U(h.type) and any(isinstance(x, ast.Break) for x in h.body):
                stops = True
            if isinstance(h, ast.If) and any(isinstance(x, ast.Break) for x in h.body) and 'is None' in U(h.test) and '.get(' in U(l):
                stops = True
    ctx.ob('G-TAB', f.construct, 'unknown letter stops struct building; raw bytes still taken by length',
           stops and 'aug_bytes = self._read_augmentation_data(entry_structs)' in src and 'self.stream.seek(offset)' in src)
    ctx.ob('G-TAB', f.construct, "data requires the 'z' prefix", "assert augmentation.startswith(b'z')" in src)
    tr = expr.assign_trace(f.node, env)
    ctx.ob('G-TAB', f.construct, 'struct parsed at the position after the header', tr.get('offset') == [('=', 'tell(stream)')] and
           'aug_dict.update(struct_parse(struct, self.stream, offset))' in src, got=tr.get('offset'))
    g = w.model.func(CF, 'CallFrameInfo._read_augmentation_data')
    genv = expr.FEnv(g.node, params=('entry_structs',))
    rets = {}
    for c, r, p in paths.returns_with_conds(g.node):
        rets[expr.Facts(expr.CP(expr.cond_str(t, genv), pol) for t, pol in c).get('T(for_eh_frame)')] = expr.nfs(r, genv)
    want_len = "index(struct_parse(Struct('Dummy_Augmentation_Data',Dwarf_uleb128('length')),stream),'length')"
    ctx.ob('G-TAB', g.construct, 'ULEB length then that many bytes (eh_frame only)',
           rets.get(False) == "b''" and rets.get(True) in ('read(stream,%s)' % want_len, 'read(stream,length)'), got=rets)
    # pc-relative adjustments
    h = w.model.func(CF, 'CallFrameInfo._parse_lsda_pointer')
    henv = expr.FEnv(h.node, params=('structs', 'stream_offset', 'encoding'), inline=False)
    tr = expr.assign_trace(h.node, henv)
    ctx.ob('G-TAB', h.construct, 'basic encoding = low nibble, modifier = high nibble',
           tr.get('basic_encoding') == [('=', expr.spec_nf('encoding & 0x0f'))] and tr.get('modifier') == [('=', expr.spec_nf('encoding & 0xf0'))], got=(tr.get('basic_encoding'), tr.get('modifier')))
    ptr = tr.get('ptr')
    ctx.ob('G-TAB', h.construct, 'pc-relative: + section address + field offset', ptr is not None and len(ptr) == 2 and ptr[1] == ('+=', expr.spec_nf('address + stream_offset')),
           got=ptr, msg='pc-relative pointers are relative to the address of the pointer field itself')
    ops = [o.t() for o in streams.func_ops(h.node, henv) if o.kind == 'parse']
    ctx.ob('G-TAB', h.construct, 'pointer parsed at the field offset with the basic encoding', len(ops) == 1 and ops[0][3] == 'stream_offset' and
           "formats[basic_encoding]('LSDA_pointer')" in U(h.node), got=ops)
    ok, why = _modifier_decision(h.node, henv, 'modifier', 'DW_EH_PE_absptr', 'ptr +=')
    ctx.ob('G-TAB', h.construct, 'modifiers: absptr, pcrel, else rejected', ok, got=why,
           msg='absptr leaves the pointer as parsed, pcrel adds section address + field offset, any other modifier is rejected')
    k = w.model.func(CF, 'CallFrameInfo._parse_fde_header')
    kenv = expr.FEnv(k.node, params=('entry_structs', 'offset'), inline=False)
    tr = expr.assign_trace(k.node, kenv)
    ctx.ob('G-TAB', k.construct, 'initial location offset = tell() after the minimal header', tr.get('initial_location_offset') == [('=', 'tell(stream)')], got=tr.get('initial_location_offset'))
    il = tr.get('result[initial_location]')
    ctx.ob('G-TAB', k.construct, 'pc-relative initial location: + section address + field offset', il == [('+=', expr.spec_nf('address + initial_location_offset'))], got=il)
    src = U(k.node)
    ctx.ob('G-TAB', k.construct, 'FDE header = initial length, CIE pointer, then location and range in the CIE\'s FDE encoding',
           "fields = [entry_structs.Dwarf_initial_length('length'), entry_structs.Dwarf_offset('CIE_pointer')]" in src and
           "fields.append(formats[basic_encoding]('initial_location'))\n    fields.append(formats[basic_encoding]('address_range'))" in src.replace('        ', '    '))
    # LSB 10.6.1.1.1 / gcc unwind-dw2-fde: the FDE pointer encoding is the CIE's 'R' datum and DW_EH_PE_absptr when the augmentation has no
    # 'R' ('', 'zL', 'zP', 'zS' are all in the property's quantifier): the lookup must have that default, not fail
    enc = tr.get('encoding')
    accepted = [expr.nfs(ast.parse(t, mode='eval').body, kenv) for t in (
        "cie.augmentation_dict.get('FDE_encoding', DW_EH_encoding_flags['DW_EH_PE_absptr'])", "cie.augmentation_dict.get('FDE_encoding', 0)")]
    ctx.ob('G-TAB', k.construct, "FDE pointer encoding = the CIE's 'R' datum, absptr when there is none", enc is not None and len(enc) == 1 and enc[0][0] == '=' and enc[0][1] in accepted,
           got=enc, expected=accepted[:1], msg="an .eh_frame CIE without 'R' has absolute-pointer FDEs; a subscript fails on it (KeyError)")
    ctx.ob('G-TAB', k.construct, 'encoding split', tr.get('basic_encoding') == [('=', expr.spec_nf('encoding & 0x0f'))] and
           tr.get('encoding_modifier') == [('=', expr.spec_nf('encoding & 0xf0'))])
    fixed = [expr.nfs(r, kenv) for c, r, p in paths.returns_with_conds(k.node)
             if expr.Facts(expr.CP(expr.cond_str(t, kenv), pol) for t, pol in c).get('T(for_eh_frame)') is False]
    ctx.ob('G-TAB', k.construct, '.debug_frame uses the fixed FDE header', fixed == ['struct_parse(Dwarf_FDE_header,stream,offset)'], got=fixed)
    ctx.ob('G-TAB', k.construct, 'whole header re-parsed at the entry offset', "result = struct_parse(Struct('Dwarf_FDE_header', *fields), self.stream, offset)" in src)


def _modifier_decision(fnode, env, var, abs_name, adjust_prefix):
    """Decision table of a pointer-encoding modifier, read off the paths (so that any arrangement of the tests is accepted):
    for the modifier value absptr (or literal 0), pcrel and 'anything else', the one path whose branch outcomes are consistent with
    that value must, respectively, not adjust, adjust, and be rejected (assert False / raise)."""
    import re as _re
    consts = {'DW_EH_PE_absptr': 0, 'DW_EH_PE_pcrel': 0x10, 'DW_EH_PE_omit': 0xff}
    outcomes = {}
    for label, val in (('absptr', 0), ('pcrel', 0x10), ('other', 0x30)):
        hits = []
        for p in paths.func_paths(fnode):
            consistent = True
            for t, pol in p.conds():
                cs = expr.cond_str(t, env)
                if var not in cs:
                    continue
                c = expr.CP(cs, pol)
                m = _re.match(r"^\[(?:-1\*)?(DW_EH_PE_[a-z]+) \+ (?:-1\*)?%s == 0\]$" % var, c[0]) or _re.match(r"^\[(?:-1\*)?%s \+ (?:-1\*)?(DW_EH_PE_[a-z]+) == 0\]$" % var, c[0])
                if m:
                    truth = consts.get(m.group(1)) == val
                elif c[0] == '[%s == 0]' % var:
                    truth = val == 0
                else:
                    return False, 'test on the modifier not understood: %s' % cs
                if truth != c[1]:
                    consistent = False
                    break
            if consistent:
                cl = p.conds()
                # a rejection that does not come from a test on the modifier (another assertion of the function) is not this table's
                if p.end[0] == 'raise' and not (cl and var in expr.cond_str(cl[-1][0], env)):
                    continue
                hits.append(p)
        kinds = set()
        for p in hits:
            adj = any(U(x).startswith(adjust_prefix) for x in p.stmts())
            rej = p.end[0] == 'raise'
            kinds.add('reject' if rej else ('adjust' if adj else 'keep'))
        outcomes[label] = sorted(kinds)
    want = {'absptr': ['keep'], 'pcrel': ['adjust'], 'other': ['reject']}
    return outcomes == want, outcomes


def check_split(ctx, w):
    f = w.model.func(CF, 'CallFrameInfo._parse_instructions')
    consts = dict((k, v) for k, v in w.interp.module_env('dwarf/constants.py').vars.items() if isinstance(v, int))
    menv = w.interp.module_env(CF).vars
    env = expr.FEnv(f.node, params=('structs', 'offset', 'end_offset'), inline=False)
    tr = expr.assign_trace(f.node, env)
    ctx.ob('G-SIG', f.construct, 'primary = opcode & 0xc0, argument = opcode & 0x3f',
           tr.get('primary') == [('=', expr.spec_nf('opcode & _PRIMARY_MASK'))] and tr.get('primary_arg') == [('=', expr.spec_nf('opcode & _PRIMARY_ARG_MASK'))] and
           menv.get('_PRIMARY_MASK') == 0xc0 and menv.get('_PRIMARY_ARG_MASK') == 0x3f, got=(tr.get('primary'), menv.get('_PRIMARY_MASK')))
    whiles = [n for n in ast.walk(f.node) if isinstance(n, ast.While)]
    loop = whiles[0]
    ctx.ob('G-SIG', f.construct, 'opcode byte at offset; offset = tell() after each instruction; until end_offset',
           U(loop.body[0]) == 'opcode = struct_parse(structs.the_Dwarf_uint8, self.stream, offset)' and U(loop.body[-1]) == 'offset = self.stream.tell()'
           and expr.cond_str(loop.test, env) == expr.spec_cond('offset < end_offset'))
    top = [s for s in loop.body if isinstance(s, ast.If)]
    if len(top) != 1:
        raise AnalysisError('G-SIG', f.construct, 'dispatch not found')
    got = {}
    node = top[0]
    else_body = None
    while True:
        t = node.test
        keys = None
        subj = None
        k1, _ = dispatch.keys_of_test(t, dispatch.subject_name('primary'), consts)
        k2, _ = dispatch.keys_of_test(t, dispatch.subject_name('opcode'), consts)
        if k1 is not None:
            keys, subj = k1, 'primary'
        elif k2 is not None:
            keys, subj = k2, 'opcode'
        else:
            raise AnalysisError('G-SIG', f.construct, 'test not on primary/opcode: %s' % U(t))
        sig = []
        for st in node.body:
            if isinstance(st, ast.Assign) and U(st.targets[0]) == 'args' and isinstance(st.value, ast.List):
                for el in st.value.elts:
                    if isinstance(el, ast.Name) and el.id == 'primary_arg':
                        sig.append('low6')
                    elif isinstance(el, ast.Call) and dispatch.callee_name(el) == 'struct_parse' and len(el.args) == 2 and U(el.args[1]) == 'self.stream':
                        a = expr.nfs(el.args[0], env)
                        sig.append(ATOM.get(a, a))
                    else:
                        sig.append('?' + U(el))
        for k in keys:
            got.setdefault((subj, k), sig)
        if len(node.orelse) == 1 and isinstance(node.orelse[0], ast.If):
            node = node.orelse[0]
            continue
        else_body = node.orelse
        break
    for name in sorted(k for k in consts if k.startswith('DW_CFA_') and not k.endswith('_user')):
        v = consts[name]
        key = ('primary', v) if v & 0xc0 else ('opcode', v)
        ctx.ob('G-EXH', f.construct, name, key in got, msg='call-frame opcode named by the constants module has no branch: the instruction stream cannot be split')
        if key in got and name in OPERANDS:
            ctx.ob('G-SIG', f.construct, name, got[key] == OPERANDS[name], got=got[key], expected=OPERANDS[name],
                   msg='operands differ from DWARF 5 §7.24', sample='%s operands %s' % (name, OPERANDS[name]))
    ctx.ob('G-SIG', f.construct, 'unknown opcode rejected', else_body is not None and 'dwarf_assert(False' in ' '.join(U(s) for s in else_body))
    ctx.ob('G-SIG', f.construct, 'instruction recorded with opcode and args', 'instructions.append(CallFrameInstruction(opcode=opcode, args=args))' in U(loop))
    g = w.model.func(CF, 'instruction_name')
    genv = expr.FEnv(g.node, params=('opcode',))
    rp = [([expr.CP(expr.cond_str(t, genv), pol) for t, pol in c], expr.nfs(r, genv)) for c, r, p in paths.returns_with_conds(g.node)]
    want = [([expr.CP(expr.spec_cond('opcode & _PRIMARY_MASK == 0'), True)], 'index(_OPCODE_NAME_MAP,opcode)'),
            ([expr.CP(expr.spec_cond('opcode & _PRIMARY_MASK == 0'), False)], expr.spec_nf('_OPCODE_NAME_MAP[opcode & _PRIMARY_MASK]'))]
    ctx.ob('G-SIG', g.construct, 'name by the primary bits when set, else by the whole opcode', rp == want, got=rp, expected=want)


def _interp_branches(fnode, subject='name'):
    chains = dispatch.find_chain(fnode, dispatch.subject_name(subject), min_branches=6)
    if not chains:
        return None
    out = {}
    for b in chains[0]:
        if b.is_else:
            out['else'] = b
            continue
        for k in b.keys:
            out.setdefault(k, b)
    return out


def check_interp(ctx, w):
    f = w.model.func(CF, 'CFIEntry._decode_CFI_table')
    br = _interp_branches(f.node)
    if br is None:
        raise AnalysisError('G-INT', f.construct, 'interpretation dispatch not found')
    env = expr.FEnv(None)
    factors = {}
    for name, (target, val, factor, row) in sorted(INTERP.items()):
        b = br.get(name)
        ctx.ob('G-INT', f.construct, name + ' handled', b is not None, msg='instruction with a table effect has no interpretation branch')
        if b is None:
            continue
        mod = ast.Module(body=b.body, type_ignores=[])
        src = [U(s).replace('\n', '') for s in b.body]
        used = set(n.slice.value for n in ast.walk(mod) if isinstance(n, ast.Subscript) and isinstance(n.slice, ast.Constant) and
                   n.slice.value in (CAF, DAF))
        factors[name] = used
        ctx.ob('G-INT', f.construct, name + ' factor', used == ({factor} if factor else set()), got=sorted(used), expected=factor or 'none',
               msg='operand is scaled by the wrong alignment factor (DWARF 5 §6.4.2)', sample='%s scaled by %s' % (name, factor or 'nothing'))
        has_row = any(s == 'table.append(copy.copy(cur_line))' for s in src)
        ctx.ob('G-INT', f.construct, name + (' opens a new row first' if row else ' does not open a row'), has_row == row and (not row or src[0] == 'table.append(copy.copy(cur_line))'),
               got=src[:1], msg='row creation differs from §6.4.2 (location-changing instructions copy the current row first)')
        tr = expr.assign_trace(mod, env)
        if target == 'pc':
            got = tr.get('cur_line[pc]')
            want = val if val[1] is not None else ('+=', expr.spec_nf('a * b').replace('a*b', '%s*%s' % (CAF, A0)))
            wantn = (want[0], want[1] if name == 'DW_CFA_set_loc' else '%s*%s' % (CAF, A0))
            ctx.ob('G-INT', f.construct, name + ' location', got == [wantn], got=got, expected=wantn)
        elif target == 'cfa':
            got = tr.get('cur_line[cfa]')
            ctx.ob('G-INT', f.construct, name + ' CFA rule', got == [val], got=got, expected=val, msg='CFA rule constructed differs from §6.4.2')
        else:
            asg = [s for s in b.body if isinstance(s, ast.Assign) and isinstance(s.targets[0], ast.Subscript) and U(s.targets[0]) == 'cur_line[instr.args[0]]']
            got = expr.nfs(asg[0].value, env).replace('RegisterRule.', '') if len(asg) == 1 else None
            got = got.replace('UNDEFINED(RegisterRule)', 'UNDEFINED') if got else got
            want = val[1]
            ok = got is not None and _norm_rule(got) == _norm_rule(want)
            ctx.ob('G-INT', f.construct, name + ' register rule', ok, got=got, expected=want, msg='register rule kind/operand differs from §6.4.2')
            ctx.ob('G-INT', f.construct, name + ' register recorded in appearance order', src[0] == '_add_to_order(instr.args[0])', got=src[:1])
    # restore
    for name in ('DW_CFA_restore', 'DW_CFA_restore_extended'):
        b = br.get(name)
        src = ' '.join(U(s) for s in b.body) if b else ''
        ok = 'if instr.args[0] in last_line_in_CIE:' in src and 'cur_line[instr.args[0]] = last_line_in_CIE[instr.args[0]]' in src and \
            'cur_line.pop(instr.args[0], None)' in src and 'isinstance(self, FDE)' in src
        ctx.ob('G-INT', f.construct, name + ' restores the rule of the CIE initial instructions (or removes it)', ok)
    b = br.get('DW_CFA_remember_state')
    ctx.ob('G-INT', f.construct, 'remember_state pushes a deep copy', b is not None and [U(s) for s in b.body] == ['line_stack.append(copy.deepcopy(cur_line))'])
    b = br.get('DW_CFA_restore_state')
    ctx.ob('G-INT', f.construct, 'restore_state pops the rules and keeps the current location', b is not None and
           [U(s) for s in b.body] == ["pc = cur_line['pc']", 'cur_line = line_stack.pop()', "cur_line['pc'] = pc"])
    src = U(f.node)
    ctx.ob('G-INT', f.construct, 'FDE starts from the last row of the CIE at its initial location',
           'cur_line = copy.copy(last_line_in_CIE)' in src and "cur_line['pc'] = self['initial_location']" in src and 'cie_decoded_table = cie.get_decoded()' in src)
    # DWARF 6.4.1: a row is a CFA rule plus register rules; the CFA rule is register+offset *or* an expression (DW_CFA_def_cfa_expression).
    # The last row exists when it carries any of them: CFA register, CFA expression, or a register rule (more keys than pc and cfa).
    tail = [st for st in f.node.body if isinstance(st, ast.If) and any(U(x) == 'table.append(cur_line)' for x in st.body)]
    disj = set()
    if len(tail) == 1:
        t = tail[0].test
        disj = set(U(x) for x in (t.values if isinstance(t, ast.BoolOp) and isinstance(t.op, ast.Or) else [t]))
    want = set(U(ast.parse(x, mode='eval').body) for x in ("cur_line['cfa'].reg is not None", "cur_line['cfa'].expr is not None", 'len(cur_line) > 2'))
    canon_want = set(canon.norm_text(x).strip() for x in want)
    ctx.ob('G-INT', f.construct, 'final row appended when it carries a rule (CFA register, CFA expression or a register rule)',
           len(tail) == 1 and (disj == want or disj == canon_want), got=sorted(disj), expected=sorted(want),
           msg='a table whose only rule is a CFA expression (DW_CFA_def_cfa_expression) loses its row, and the FDEs of such a CIE start without a CFA rule')
    ctx.ob('G-INT', f.construct, 'kept CFA parts come from the current row', src.count("offset=cur_line['cfa'].offset") == 1 and src.count("reg=cur_line['cfa'].reg") == 2)
    ctx.ob('G-INT', f.construct, 'instructions interpreted in order', 'for instr in self.instructions:' in src and 'name = instruction_name(instr.opcode)' in src)
    # sibling: describer
    g = w.model.func(DS, 'describe_CFI_instructions')
    dbr = _interp_branches(g.node)
    if dbr is None:
        raise AnalysisError('SIB', g.construct, 'describer dispatch not found')
    for name in sorted(factors):
        b = dbr.get(name)
        if b is None:
            continue
        mod = ast.Module(body=b.body, type_ignores=[])
        used = set(n.slice.value for n in ast.walk(mod) if isinstance(n, ast.Subscript) and isinstance(n.slice, ast.Constant) and n.slice.value in (CAF, DAF))
        ctx.ob('SIB', g.construct, name, used == factors[name], got=(sorted(used), sorted(factors[name])),
               msg='describer and interpreter scale this instruction by different alignment factors (one of them is wrong)',
               sample='%s: describer %s == interpreter %s' % (name, sorted(used), sorted(factors[name])))


def _norm_rule(s):
    return s.replace('UNDEFINED(RegisterRule)', 'UNDEFINED').replace(' ', '')


def check_rdef(ctx, w):
    for mod, q in ((CF, 'CFIEntry._decode_CFI_table'), (CF, 'CallFrameInfo._parse_entry_at'), (DS, 'describe_CFI_instructions')):
        f = w.model.func(mod, q)
        bad = possibly_unassigned(f.node, w.model)
        # named exception: describe_CFI_instructions `pc` -- CIE and FDE are disjoint classes and the use sits behind
        # _assert_FDE_instruction (raises for a CIE); correlated guards of _parse_entry_at are recognised by the rule
        if q == 'describe_CFI_instructions':
            bad = [b for b in bad if b[0] != 'pc']
        ctx.ob('R-DEF', f.construct, 'every local is assigned on every path to its use', not bad, got=bad[:3],
               msg='a local may be used before assignment on some path (UnboundLocalError)', line=bad[0][1] if bad else f.node.lineno)


def _isinstance_facts(path):
    facts = []
    for ev in path.events:
        if ev[0] == 'cond':
            t, pol = ev[1], ev[2]
            neg = False
            while isinstance(t, ast.UnaryOp) and isinstance(t.op, ast.Not):
                t = t.operand
                neg = not neg
            if isinstance(t, ast.Call) and isinstance(t.func, ast.Name) and t.func.id == 'isinstance' and len(t.args) == 2 and \
                    isinstance(t.args[1], ast.Name):
                facts.append((U(t.args[0]), t.args[1].id, pol != neg))
    return facts


def possibly_unassigned(func, model=None):
    """Path-based definite assignment with the correlated-guard idiom: a use under condition c counts as defined when
    every definition-less path to it passed a branch on a textually identical condition taking the defining edge."""
    import builtins
    assigned_somewhere = set()
    for n in ast.walk(func):
        if isinstance(n, ast.Name) and isinstance(n.ctx, ast.Store):
            assigned_somewhere.add(n.id)
    params = set(a.arg for a in func.args.posonlyargs + func.args.args + func.args.kwonlyargs)
    nested = set(n.name for n in ast.walk(func) if isinstance(n, (ast.FunctionDef, ast.ClassDef)) and n is not func)
    bad = {}
    for p in paths.func_paths(func, limit=200000):
        # infeasible path: an object asserted to be an instance of two disjoint classes (class table fact)
        if model is not None:
            facts = [f for f in _isinstance_facts(p) if f[2]]
            infeasible = False
            for i, (x, a, _) in enumerate(facts):
                for (y, b, _) in facts[i + 1:]:
                    if x == y and a != b:
                        ca = model.classes.get(a, [])
                        cb = model.classes.get(b, [])
                        if len(ca) == 1 and len(cb) == 1 and not ca[0].is_subclass_of(b) and not cb[0].is_subclass_of(a) and \
                                not (set(c.name for c in ca[0].all_subclasses()) & set(c.name for c in cb[0].all_subclasses())):
                            infeasible = True
            if infeasible:
                continue
        defined = set(params) | nested
        conds_def = {}
        for ev in p.events:
            if ev[0] == 'cond':
                node = ev[1]
                _loads(node, defined, assigned_somewhere, bad)
            elif ev[0] == 'stmt':
                st = ev[1]
                if isinstance(st, (ast.FunctionDef, ast.ClassDef)):
                    defined.add(st.name)
                    continue
                if isinstance(st, ast.With):
                    for it in st.items:
                        _loads(it.context_expr, defined, assigned_somewhere, bad)
                        if it.optional_vars is not None:
                            for x in ast.walk(it.optional_vars):
                                if isinstance(x, ast.Name):
                                    defined.add(x.id)
                    continue
                if isinstance(st, (ast.Assign, ast.AugAssign, ast.AnnAssign)):
                    val = st.value
                    if val is not None:
                        _loads(val, defined, assigned_somewhere, bad)
                    if isinstance(st, ast.AugAssign):
                        _loads(st.target, defined, assigned_somewhere, bad, force=True)
                    targets = st.targets if isinstance(st, ast.Assign) else [st.target]
                    for t in targets:
                        for x in ast.walk(t):
                            if isinstance(x, ast.Name) and isinstance(x.ctx, ast.Store):
                                defined.add(x.id)
                            elif isinstance(x, ast.Name):
                                _loads(x, defined, assigned_somewhere, bad)
                    continue
                _loads(st, defined, assigned_somewhere, bad)
            elif ev[0] == 'loop' and ev[2] == 'enter' and isinstance(ev[1], ast.For):
                _loads(ev[1].iter, defined, assigned_somewhere, bad)
                for x in ast.walk(ev[1].target):
                    if isinstance(x, ast.Name):
                        defined.add(x.id)
            elif ev[0] == 'except':
                if ev[1].name:
                    defined.add(ev[1].name)
    # correlated-guard refinement
    out = []
    for name, line in sorted(bad.items()):
        if _correlated(func, name):
            continue
        out.append((name, line))
    return out


def _loads(node, defined, assigned_somewhere, bad, force=False):
    for x in ast.walk(node):
        if isinstance(x, (ast.Lambda, ast.FunctionDef)):
            continue
        if isinstance(x, ast.Name) and (isinstance(x.ctx, ast.Load) or force) and x.id in assigned_somewhere and x.id not in defined:
            # comprehension variables
            bad.setdefault(x.id, x.lineno)
    for x in ast.walk(node):
        if isinstance(x, (ast.ListComp, ast.GeneratorExp, ast.SetComp, ast.DictComp)):
            for g in x.generators:
                for y in ast.walk(g.target):
                    if isinstance(y, ast.Name):
                        bad.pop(y.id, None) if y.id in bad and bad[y.id] >= x.lineno else None


def _correlated(func, name):
    """Definition(s) and use(s) of `name` sit under textually equal conditions whose variables are not written in between."""
    def_conds = []
    use_conds = []

    def walk(stmts, conds):
        for st in stmts:
            if isinstance(st, ast.If):
                c = U(st.test)
                walk(st.body, conds + [(c, True)])
                walk(st.orelse, conds + [(c, False)])
                for x in ast.walk(st.test):
                    if isinstance(x, ast.Name) and x.id == name and isinstance(x.ctx, ast.Load):
                        use_conds.append(conds)
            elif isinstance(st, (ast.For, ast.While, ast.With, ast.Try)):
                for fld in ('body', 'orelse', 'finalbody'):
                    walk(getattr(st, fld, []) or [], conds)
                for h in getattr(st, 'handlers', []):
                    walk(h.body, conds)
            else:
                for x in ast.walk(st):
                    if isinstance(x, ast.Name) and x.id == name:
                        (def_conds if isinstance(x.ctx, ast.Store) else use_conds).append(conds)
    walk(func.body, [])
    if not def_conds or not use_conds:
        return False
    def_sets = [set(c) for c in def_conds]
    # every use must be under all the conditions of some definition... conservatively: under the conditions of the
    # *union of definitions* that cover both edges of a condition
    for uc in use_conds:
        ucs = set(uc)
        ok = any(ds <= ucs for ds in def_sets)
        if not ok:
            # both edges of one condition define it?
            ok = False
            for ds in def_sets:
                for (c, pol) in ds:
                    other = [d for d in def_sets if (c, not pol) in d]
                    if other and (ds - {(c, pol)}) <= ucs:
                        ok = True
            if not ok:
                return False
    # the condition variables must not be reassigned in the function after the definitions (checked textually: they are
    # assigned at most once)
    for ds in def_sets:
        for (c, pol) in ds:
            for v in ast.walk(ast.parse(c, mode='eval')):
                if isinstance(v, ast.Name):
                    stores = [x for x in ast.walk(func) if isinstance(x, ast.Name) and x.id == v.id and isinstance(x.ctx, ast.Store)]
                    if len(stores) > 2:
                        return False
    return True


def check_link(ctx, w):
    f = w.model.func(CF, 'CallFrameInfo._parse_cie_for_fde')
    withs = [n for n in ast.walk(f.node) if isinstance(n, ast.With)]
    ok = len(withs) == 1 and U(withs[0].items[0].context_expr) == 'preserve_stream_pos(self.stream)' and \
        [U(s) for s in withs[0].body] == ['return self._parse_entry_at(cie_offset)']
    ctx.ob('W-LINK', f.construct, 'CIE parsed under preserve_stream_pos', ok, msg='parsing the CIE of an FDE must not disturb the position of the FDE parse')
    g = w.model.func(CF, 'CallFrameInfo._parse_entry_at')
    src = U(g.node)
    ctx.ob('W-LINK', g.construct, 'entry cache keyed by offset', 'if offset in self._entry_cache:' in src and 'self._entry_cache[offset] = entry' in src and
           'entry = self._entry_cache[offset]' in src)
    ctx.ob('W-LINK', g.construct, 'cache hit skips exactly the entry extent',
           'self.stream.seek(entry.header.length + entry.structs.initial_length_field_size(), os.SEEK_CUR)' in src)
    ctx.ob('W-LINK', g.construct, 'FDE linked to the CIE its pointer designates', src.count('cie = self._parse_cie_for_fde(offset, header, entry_structs)') == 2 and
           'entry = FDE(header=header, instructions=instructions, offset=offset, structs=entry_structs, cie=cie, augmentation_bytes=aug_bytes, lsda_pointer=lsda_pointer)' in src)
    ctx.ob('W-LINK', g.construct, 'CIE carries its augmentation dict/bytes', 'entry = CIE(header=header, instructions=instructions, offset=offset, augmentation_dict=aug_dict, '
           'augmentation_bytes=aug_bytes, structs=entry_structs)' in src)
    h = w.model.func(CF, 'CallFrameInfo.get_entries')
    tr = expr.assign_trace(h.node, expr.FEnv(h.node))
    ctx.ob('W-LINK', h.construct, 'parsed once', tr.get('self.entries') == [('=', '_parse_entries(self)')] and
           [expr.cond_str(n.test) for n in ast.walk(h.node) if isinstance(n, ast.If)] == [expr.spec_cond('entries is None')])
    k = w.model.func(CF, 'CFIEntry.get_decoded')
    tr = expr.assign_trace(k.node, expr.FEnv(k.node))
    ctx.ob('W-LINK', k.construct, 'decoded once', tr.get('self._decoded_table') == [('=', '_decode_CFI_table(self)')])
    di = w.model.func('dwarf/dwarfinfo.py', 'DWARFInfo.CFI_entries')
    src = U(di.node)
    ctx.ob('W-LINK', di.construct, '.debug_frame stream/size/address', 'CallFrameInfo(stream=self.debug_frame_sec.stream, size=self.debug_frame_sec.size, '
           'address=self.debug_frame_sec.address, base_structs=self.structs)' in src)
    di = w.model.func('dwarf/dwarfinfo.py', 'DWARFInfo.EH_CFI_entries')
    src = U(di.node)
    ctx.ob('W-LINK', di.construct, '.eh_frame stream/size/address, eh mode', 'CallFrameInfo(stream=self.eh_frame_sec.stream, size=self.eh_frame_sec.size, '
           'address=self.eh_frame_sec.address, base_structs=self.structs, for_eh_frame=True)' in src)


ST = 'dwarf/structs.py'
MUTANTS = [
    ('final-row-no-expr', CF, "        if (cur_line['cfa'].reg is not None or cur_line['cfa'].expr is not None or\n                len(cur_line) > 2):", "        if (cur_line['cfa'].reg is not None or\n                len(cur_line) > 2):", 'G-INT'),
    ('fde-encoding-subscript', CF, "cie.augmentation_dict.get('FDE_encoding', DW_EH_encoding_flags['DW_EH_PE_absptr'])", "cie.augmentation_dict['FDE_encoding']", 'G-TAB'),
    ('fde-encoding-default-omit', CF, "cie.augmentation_dict.get('FDE_encoding', DW_EH_encoding_flags['DW_EH_PE_absptr'])",
     "cie.augmentation_dict.get('FDE_encoding', DW_EH_encoding_flags['DW_EH_PE_omit'])", 'G-TAB'),
    ('peek-relative', CF, "            entry_structs.the_Dwarf_offset, self.stream,\n            offset + entry_structs.initial_length_field_size())", "            entry_structs.the_Dwarf_offset, self.stream)", 'E-i'),
    ('peek-plus4', CF, "            offset + entry_structs.initial_length_field_size())", "            offset + 4)", 'E-i'),
    ('unbound-last-line', CF, "                last_line_in_CIE = dict()\n", "", 'R-DEF'),
    ('def-cfa-sf-code', CF, "                    offset=instr.args[1] * cie['data_alignment_factor'])\n            elif name == 'DW_CFA_def_cfa_register':", "                    offset=instr.args[1] * cie['code_alignment_factor'])\n            elif name == 'DW_CFA_def_cfa_register':", 'G-INT'),
    ('def-cfa-offset-sf-code', CF, "offset=instr.args[0] * cie['data_alignment_factor'])", "offset=instr.args[0] * cie['code_alignment_factor'])", 'G-INT'),
    ('val-offset-unfactored', CF, "                    RegisterRule.VAL_OFFSET,\n                    instr.args[1] * cie['data_alignment_factor'])", "                    RegisterRule.VAL_OFFSET,\n                    instr.args[1])", 'G-INT'),
    ('operand-kind', CF, "            elif opcode == DW_CFA_def_cfa_offset_sf:\n                args = [struct_parse(structs.the_Dwarf_sleb128, self.stream)]", "            elif opcode == DW_CFA_def_cfa_offset_sf:\n                args = [struct_parse(structs.the_Dwarf_uleb128, self.stream)]", 'G-SIG'),
    ('eh-cie-id', CF, "            is_CIE = CIE_id == 0\n", "            is_CIE = CIE_id == 0xFFFFFFFF\n", 'E-i'),
    ('cie-off-format', CF, "            cie_offset = (fde_offset + entry_structs.dwarf_format // 8\n                          - cie_displacement)", "            cie_offset = (fde_offset\n                          - cie_displacement)", 'E-i'),
    ('sdata4-unsigned', CF, "            DW_EH_encoding_flags['DW_EH_PE_sdata4']:\n                entry_structs.Dwarf_int32,", "            DW_EH_encoding_flags['DW_EH_PE_sdata4']:\n                entry_structs.Dwarf_uint32,", 'G-TAB'),
    ('restore-state-pc', CF, "                pc = cur_line['pc']\n                cur_line = line_stack.pop()\n                cur_line['pc'] = pc", "                cur_line = line_stack.pop()", 'G-INT'),
    ('pcrel-no-address', CF, "            ptr += self.address + stream_offset", "            ptr += stream_offset", 'G-TAB'),
    ('cie-v3-ra', ST, "            IfThenElse('return_address_register', lambda ctx: ctx.version > 1,", "            IfThenElse('return_address_register', lambda ctx: ctx.version > 3,", 'L-CONF'),
    ('advance-loc2-u8', CF, "            elif opcode == DW_CFA_advance_loc2:\n                args = [struct_parse(structs.the_Dwarf_uint16, self.stream)]", "            elif opcode == DW_CFA_advance_loc2:\n                args = [struct_parse(structs.the_Dwarf_uint8, self.stream)]", 'G-SIG'),
    ('register-kind', CF, "                    RegisterRule.REGISTER,\n                    instr.args[1])", "                    RegisterRule.OFFSET,\n                    instr.args[1])", 'G-INT'),
    ('set-loc-norow', CF, "            if name == 'DW_CFA_set_loc':\n                table.append(copy.copy(cur_line))\n", "            if name == 'DW_CFA_set_loc':\n", 'G-INT'),
    ('preserve-gone', CF, "        with preserve_stream_pos(self.stream):\n            return self._parse_entry_at(cie_offset)", "        if True:\n            return self._parse_entry_at(cie_offset)", None),
    ('advance-data', CF, "                cur_line['pc'] += instr.args[0] * cie['code_alignment_factor']", "                cur_line['pc'] += instr.args[0] * cie['data_alignment_factor']", 'G-INT'),
    ('end-offset', CF, "        end_offset = (\n            offset + header.length +\n            entry_structs.initial_length_field_size())", "        end_offset = (\n            offset + header.length)", 'E-i'),
    ('primary-mask', CF, "_PRIMARY_ARG_MASK = 0b00111111", "_PRIMARY_ARG_MASK = 0b00011111", 'G-SIG'),
    ('lsda-offset', CF, "self.stream.tell() - len(aug_bytes),", "self.stream.tell(),", 'E-i'),
    ('describer-factor', DS, "                instr.args[1] * cie['data_alignment_factor'])\n        elif name in ('DW_CFA_def_cfa_offset', 'DW_CFA_GNU_args_size'):", "                instr.args[1] * cie['code_alignment_factor'])\n        elif name in ('DW_CFA_def_cfa_offset', 'DW_CFA_GNU_args_size'):", 'SIB'),
    ('zero-term', CF, "        if self.for_eh_frame and entry_length == 0:\n            return ZERO(offset)", "        if entry_length == 0:\n            return ZERO(offset)", 'E-i'),
    ('aug-L-u16', CF, "b'L': entry_structs.Dwarf_uint8('LSDA_encoding'),", "b'L': entry_structs.Dwarf_uint16('LSDA_encoding'),", 'G-TAB'),
    ('initloc-pcrel', CF, "                self.address + initial_location_offset)", "                self.address + offset)", 'G-TAB'),
]
