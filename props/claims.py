"""Claims registry: which properties are claimed (with the clause-level text) and which are not."""

LEVEL = ('static analysis: every instance of the listed rules in the current tree is enumerated and checked against '
         'the vendored registries / specification rows / sibling code; the named structural clauses are decided '
         'for all inputs, the runtime remainder in level_note is not claimed')

CLAIMS = {
    'C01': dict(
        technique='layout abstract interpretation vs glibc typedefs + enum-table conformance + boundary decision tables + '
                  'affine normal forms + dispatch-table extraction',
        level=LEVEL,
        note='Decides: header layouts per class/byte order/machine, enum tables and pass-through defaults, extended-'
             'numbering triples, table addressing formulas, type->class dispatch and link validation, name-map/enumeration '
             'agreement, e_ident detection. Not decided: that struct.unpack decodes bytes as documented; section name '
             'strings (C02). Trusted: CPython ast, glibc elf.h, spec rows in /verif/spec.'),
    'C02': dict(
        technique='layout interpretation vs glibc + per-path stream-operation normal forms + truth-table comparison of '
                  'containment conditions with the binutils rule',
        level=LEVEL,
        note='Decides: Elf_Chdr layout per class, Section constructor wiring, the three data paths (positions, lengths, '
             'size check dominating the compressed return), Segment/interp/string reads, address_offsets condition and '
             'offset, section_in_segment == ELF_SECTION_IN_SEGMENT_1(strict) over all atom assignments. Not decided: zlib '
             'inflation, the bytes parse_cstring_from_stream returns. Trusted: glibc elf.h, the transcribed binutils rule.'),
    'C03': dict(
        technique='layout interpretation vs glibc/gABI rows + bit-field placement vs registry macros + accessor normal forms + '
                  'stream-cursor typestate of the hash walks',
        level=LEVEL,
        note='Decides: Elf_Sym/syminfo/hash layouts, st_info/st_other bit placement, strides/counts, name wiring, name-map '
             'construction, GNU/SysV hash position formulas and walk conditions, H-CUR on accessors and walks. Not decided: '
             'hash values (loops over bytes), lookup completeness as a relation over all tables. Trusted: glibc elf.h, '
             'gABI/GNU-hash rows, receiver hints of the call resolution.'),
    'C17': dict(
        technique='constant folding of table modules + exhaustive comparison with vendored registries',
        level=LEVEL,
        note='Decides every (name,value) whose name glibc elf.h or LLVM BinaryFormat defines; names defined by neither '
             'registry are listed as unverifiable, names on which the registries disagree accept either value, *_NUM '
             'counts are volatile. Trusted: the vendored registry files.'),
}

NOT_YET = 'rules for this property are not built yet in this session (claimed once its check exists)'
NOT_APPLICABLE = {
    'C18': 'output equality with GNU readelf: the oracle binary is emptied in this sandbox, formatted text is a runtime '
           'value, and no structural clause can be armed without GNU readelf\'s own tables (DESIGN.md §5)',
}
for _p in ['C02', 'C03', 'C04', 'C05', 'C06', 'C07', 'C08', 'C09', 'C10', 'C11', 'C12', 'C13', 'C14', 'C15', 'C16', 'C19', 'C20']:
    if _p not in CLAIMS:
        NOT_APPLICABLE[_p] = NOT_YET
