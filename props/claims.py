"""Claims registry: which properties are claimed (with the clause-level text) and which are not."""

LEVEL = ('static analysis: every instance of the listed rules in the current tree is enumerated and checked against '
         'the vendored registries / specification rows / sibling code; the named structural clauses are decided '
         'for all inputs, the runtime remainder in level_note is not claimed')

CLAIMS = {
    'C01': dict(
        technique='layout abstract interpretation vs glibc typedefs + enum-table conformance + boundary decision tables + '
                  'affine normal forms + dispatch-table extraction',
        level=LEVEL,
        note='Decides: header layouts per class/byte order/machine, enum tables and pass-through defaults, extended-'
             'numbering triples, table addressing formulas, type->class dispatch and link validation, name-map/enumeration '
             'agreement, e_ident detection. Not decided: that struct.unpack decodes bytes as documented; section name '
             'strings (C02). Trusted: CPython ast, glibc elf.h, spec rows in /verif/spec.'),
    'C02': dict(
        technique='layout interpretation vs glibc + per-path stream-operation normal forms + truth-table comparison of '
                  'containment conditions with the binutils rule',
        level=LEVEL,
        note='Decides: Elf_Chdr layout per class, Section constructor wiring, the three data paths (positions, lengths, '
             'size check dominating the compressed return), Segment/interp/string reads, address_offsets condition and '
             'offset, section_in_segment == ELF_SECTION_IN_SEGMENT_1(strict) over all atom assignments. Not decided: zlib '
             'inflation, the bytes parse_cstring_from_stream returns. Trusted: glibc elf.h, the transcribed binutils rule.'),
    'C03': dict(
        technique='layout interpretation vs glibc/gABI rows + bit-field placement vs registry macros + accessor normal forms + '
                  'stream-cursor typestate of the hash walks',
        level=LEVEL,
        note='Decides: Elf_Sym/syminfo/hash layouts, st_info/st_other bit placement, strides/counts, name wiring, name-map '
             'construction, GNU/SysV hash position formulas and walk conditions, H-CUR on accessors and walks. Not decided: '
             'hash values (loops over bytes), lookup completeness as a relation over all tables. Trusted: glibc elf.h, '
             'gABI/GNU-hash rows, receiver hints of the call resolution.'),
    'C04': dict(
        technique='layout abstract interpretation over 32 configurations x header cases vs DWARF rows + form-table signatures via the '
                  'layout IR + boundary decision table + dispatch extraction + stream-cursor typestate + sibling agreement',
        level=LEVEL,
        note='Decides: unit/abbreviation layouts, initial-length classes, every form parser (presence and width/kind), _parse_DIE '
             'structure and cursor discipline (size = bytes consumed), value translation table and index widths, child cursor cases, '
             'unit-relative form sets, reference formulas, unit header wiring, CompileUnit/TypeUnit agreement. Not decided: values '
             'fetched from other sections; round trip of arbitrary trees. Trusted: DWARF rows in spec/dwarf.py, cursor exceptions '
             'listed in sa/cursor.py.'),
    'C05': dict(
        technique='layout interpretation per header version + dispatch extraction of the state machine with per-branch effect '
                  'signatures (operands parsed, register writes in normal form, row emission) vs DWARF 5 6.2.5 rows',
        level=LEVEL,
        note='Decides: line header/file-entry layouts v2-5, v5 formatted-entry construction, special/standard/extended opcode '
             'signatures incl. op_index arithmetic, clearing after rows, reset after end_sequence, unknown opcode skipping, loop '
             'extent and cursor, unit/program wiring and v5 legacy tables. Known finding (recorded, not repaired): end_sequence row '
             'forces is_stmt = 0 (readelf compatibility). Not decided: row values of concrete programs. Trusted: DWARF rows in '
             'props/C05.py and spec/dwarf.py.'),
    'C06': dict(
        technique='layout interpretation + evaluated pointer-encoding table through the layout IR + dispatch extraction of the '
                  'instruction split and of the table interpreter with per-branch effect signatures + sibling agreement with the '
                  'describer + path-based definite assignment + cursor typestate',
        level=LEVEL,
        note='Decides: CIE/FDE layouts, discrimination and pointer arithmetic, encoding and augmentation tables, pc-relative '
             'adjustments, operands of every DW_CFA constant, rule/operand/factor/row per interpreted instruction, restore and '
             'state stack structure, factor agreement with the describer, no unassigned local, CIE linking under '
             'preserve_stream_pos. Not decided: decoded tables of concrete sequences. Trusted: §6.4.2/§7.24 rows in props/C06.py; '
             'named cursor exception for the cache-hit SEEK_CUR (sa/cursor.py).'),
    'C07': dict(
        technique='layout interpretation of every list-entry case struct + evaluation of the translation tables with output normal '
                  'forms and field-membership + format-width rule + stream-cursor typestate with the generator/yield rule + '
                  'analyser-evaluated attribute classification over the finite attribute x form x version domain',
        level=LEVEL,
        note='Decides: v5 headers and every DW_LLE/DW_RLE case layout, translator presence/field use/outputs, v4 parsers and '
             'sentinels, offset/address table widths, enumeration formulas, H-CUR/H-YIELD of the list modules, classification on the '
             'cells the standard defines (undefined cells are listed, not compared). Not decided: decoded values; the exact set of '
             'lists visited for arbitrary DIE trees. Trusted: DWARF rows and class table in spec/dwarf.py and props/C07.py.'),
    'C08': dict(
        technique='layout interpretation vs glibc + r_info split evaluated against registry macros + recipe-table evaluation with '
                  'calc-function normal forms vs psABI rows + path-dominance of the apply-loop guards',
        level=LEVEL,
        note='Decides: Rel/Rela/Relr layouts incl. MIPS64, r_info splitting, table addressing, RELR expansion arithmetic, dynamic '
             'table wiring, every recipe row of the listed machines (code, width, effective formula), apply loop guards/flavours/'
             'width map/modulo/single writer/relocate flag. Not decided: relocated bytes of concrete objects; construct build == '
             'parse inverse. Trusted: glibc elf.h, psABI rows in spec/reloc.py.'),
    'C09': dict(
        technique='layout interpretation + tag-table selection per configuration + structural checks of the tag iteration + '
                  'override (sibling) check of the two views + accessor normal forms',
        level=LEVEL,
        note='Decides: Elf_Dyn layout, tag table per machine/OS ABI, iteration order (terminator yielded, n+1), string tags, '
             'string-table selection, constructor wiring of both views, shared accessors (no overrides), symbol access by file '
             'offset, count-recovery order. Not decided: equality of the two views on concrete images. Trusted: glibc elf.h.'),
    'C10': dict(
        technique='whole-package stream-cursor typestate with effect summaries, yield rule and public-entry preconditions + cache '
                  'discipline rules (paired arrays, bisect guards, memo-key completeness incl. one producer per key and shared memos, who-writes, '
                  'lazy-body purity, partial-container rule: nothing filled between yields is served, incremental caches read by key only)',
        level=LEVEL,
        note='Decides the two structural conditions that make history matter: every relative stream use follows a positioning of the '
             'same activation (or a cooperative callee), no generator resumes into a relative use, protected nested parses stay under '
             'preserve_stream_pos; caches are transparent (J rules, incl. J-PARTIAL: no container on an object is observable half-filled). Histories themselves are NOT explored (a bounded exploration is a '
             'model-checking/runtime technique). Known finding: define_file entries appended to the header during lazy decoding. '
             'Trusted: receiver hints, two named cursor exceptions, the designated-writer tables in props/C10.py.'),
    'C12': dict(
        technique='abstract interpretation of the dispatch-table builder per configuration + operand signatures through the layout IR '
                  'vs DWARF 5 Table 7.9 rows',
        level=LEVEL,
        note='Decides: every named operation has a parser; ordered operand kinds/width/signedness/byte order incl. format and '
             'address-size dependence, nested and typed blobs, WASM variant table; parse loop structure; one-to-one names. Not decided: '
             're-encoding round trip on concrete bytes. Trusted: operand rows in spec/dwarf.py, LLVM Dwarf.def for names (C17).'),
    'C13': dict(
        technique='layout interpretation + walk-formula normal forms with package-wide sibling agreement + bisect-discipline rules + '
                  'truth-table comparison of hit conditions',
        level=LEVEL,
        note='Decides: set header/entry layouts, next-set formula (same at every unit walk), absolute DIE offsets, preserved order, '
             'bisect probe/guard/paired insertion, hit conditions of cu_offset_at_addr and get_CU_containing, exact lookup path. Not '
             'decided: first-tuple padding arithmetic (float ceil), overlapping ranges. Trusted: DWARF rows in spec/dwarf.py.'),
    'C14': dict(
        technique='layout interpretation vs glibc/hand rows + loop-advance symbolic summation (exact-fit and progress rules) + '
                  'dispatch extraction + analyser-evaluated padding agreement',
        level=LEVEL,
        note='Decides: note/descriptor layouts per class/byte order/machine/e_type, note walk advance on every path, exact-fit '
             'guard, constant progress, descriptor dispatch, property padding == walker advance, front ends, stab walk. Not '
             'decided: decoded descriptor values. Trusted: glibc elf.h, linux elfcore/readelf rows in spec/elf.py.'),
    'C15': dict(
        technique='layout interpretation vs glibc typedefs + chain-walk assignment normal forms + derived field names evaluated '
                  'by the analyser against the layouts',
        level=LEVEL,
        note='Decides: five version struct layouts, walks advance from the current record by its next displacement, auxiliary '
             'start, derived field names exist, names via the linked string table, get_version conditions, versym addressing, link '
             'validation. Not decided: resolved values on concrete sections. Trusted: glibc elf.h.'),
    'C16': dict(
        technique='literal-level check of the integer macros + path values of FormatField._parse + structural loop summaries of the LEB128 decoders + '
                  'boundary decision table of the initial-length adapter + class-table check of error wrapping + overwritten-accumulator '
                  'contradiction rule + one-definition rule for the primitive decoders',
        level=LEVEL,
        note='Decides: width/sign/byte order of the 24 integer macros, exact-length read with FieldError on short input, 24-bit '
             'recombination, LEB128 loop (one byte per iteration, 7-bit payload, shift 7, continuation on the consumed byte, sign bit 6, '
             'immediate return), initial-length classes, repeat/prefixed/cstring structure, ConstructError->ELFParseError wrapping. '
             'Not decided: decoded values of concrete encodings. Trusted: CPython struct, construct core.'),
    'C17': dict(
        technique='constant folding of table modules + exhaustive comparison with vendored registries + table-selection rules per (machine, OS ABI) '
                  'configuration through the layout interpreter',
        level=LEVEL,
        note='Decides every (name,value) whose name glibc elf.h or LLVM BinaryFormat defines; names defined by neither '
             'registry are listed as unverifiable, names on which the registries disagree accept either value, *_NUM '
             'counts are volatile; which table a file of a given machine and OS ABI gets for sh_type, p_type and d_tag (processor names kept under every OS ABI, '
             'dynamic tags = common + processor + OS); inverse maps report the registry name. Trusted: the vendored registry files.'),
}

CLAIMS['C11'] = dict(
    technique='import/attribute layering check + name->keyword wiring derived from tuple positions with the renaming lambda evaluated '
              'by the analyser + must-pass-through and dominance of the framing/CRC checks over enumerated paths + truth-table '
              'comparison of the presence formula',
    level=LEVEL,
    note='Decides the construction that makes the DWARF view container-independent: the DWARF layer reads only stream/size/address, '
         'each keyword receives the section of its own name (plain and .zdebug), every descriptor passes _read_dwarf_section and .z '
         'ones _decompress_dwarf_section with magic/size checks dominating, CRC mismatch raises before the linked file is used, loader '
         'calls depend on follow_links, has_dwarf_info formula, supplementary link order, link struct layouts. Not decided: equality '
         'of dumps across re-encodings; zlib. Trusted: gABI/GDB framing rows.')

CLAIMS['C20'] = dict(
    technique='walk assignment normal forms (I-REL) + cursor typestate with yield rule + dispatch extraction of per-tag value kinds + '
              'path-condition decision tree of the index entries + sign-extension consistency + evaluated byte-code ring '
              '(totality/partition over all 256 bytes, per-handler consumption, ULEB loop summary) + register-list masks constant-folded over all '
              'operand bytes vs IHI 0038 Table 4',
    level=LEVEL,
    note='Decides: attribute walks advance from the current element with explicit positions, subsection header and tag layouts, '
         'value kind per tag vs the ARM/RISC-V tag tables, index entry stride/places/decision tree/byte extraction, prel31 sign bit '
         'and extension, ring totality + first-match partition vs IHI 0038 Table 4 + consumption + ULEB operand loop. Not decided: '
         'mnemonic text other than the register lists of the nine register-range byte-codes, attribute values. Trusted: IHI 0038/0045 rows in props/C20.py.')

CLAIMS['C19'] = dict(
    technique='exception-escape analysis over the resolved constructor call graph (raise types vs the exception class table, assert '
              'discharge, nullable-result dereference, membership-guarded lookups, try/handler shape of struct_parse) + loop progress '
              'analysis with integer lower bounds over the enumeration call graph (cursor advance, parse-at-cursor, sequential read '
              'with short-read exit, stride/absent-table decision)',
    level=LEVEL,
    note='Decides (1) on every function reachable from ELFFile.__init__: explicit raises are ELFError subclasses, no undischarged assert, '
         'construct parsing only through struct_parse whose handlers convert ConstructError and an unseekable position, no dereference or '
         'hand-off of a possibly-None header, variable-key lookups membership-guarded; (2) on every function reachable from the enumeration '
         'battery: each while/count() loop parses at a cursor that grows by a proven positive amount (unsigned fields, sizeof >= 1, '
         'roundup(x,k) >= x) or reads a positive fixed size sequentially and leaves on a short read; header table strides >= struct size '
         'or count 0 when the table is absent. Not decided: wall time, allocation (stream.read(n) of a file-controlled n depends on the '
         'stream type), implicit exceptions of arithmetic on parsed integers, quadratic products of bounded loops.')

NOT_YET = 'rules for this property are not built yet in this session (claimed once its check exists)'
NOT_APPLICABLE = {
    'C18': 'output equality with GNU readelf over a corpus: formatted text is a runtime value of two programs; deciding it means '
           'running both and comparing (a differential test, not this family). The project\'s pinned oracle test/external_tools/readelf '
           'is emptied here; a system GNU readelf 2.40 exists, but using it would be exactly the runtime test the brief excludes, and no '
           'structural clause can be armed without GNU readelf\'s own description tables as a reference (DESIGN.md §5)',
}
for _p in ['C02', 'C03', 'C04', 'C05', 'C06', 'C07', 'C08', 'C09', 'C10', 'C11', 'C12', 'C13', 'C14', 'C15', 'C16', 'C19', 'C20']:
    if _p not in CLAIMS:
        NOT_APPLICABLE[_p] = NOT_YET
