"""C01 -- ELF file, section and program headers are decoded exactly as encoded.

Clauses decided (DESIGN.md §3 C01): 1 L-CONF header layouts vs glibc typedefs; 2 L-ENUM pass-through and
machine table switch; 3 extended-numbering triples (E-ii); 4 I-STRIDE table addressing; 5 G-SIG/G-EXH of
_make_section/_make_segment and link validators; 6 lookup/enumeration agreement; W-IDENT class/endian detection;
G-LIT on the anchored files.
"""
import ast
from sa.canon import U
from sa.world import get_world
from sa import elfconf, layout, dispatch, expr, paths, literals
from sa.report import AnalysisError
from sa.absint import Ctor
from spec import elf as S, wiring as W

FILE = 'elf/elffile.py'


def run(ctx):
    w = get_world(ctx)
    ctx.explanation.append(
        'C01: header layouts interpreted from elf/structs.py for every class/byte order/machine and compared '
        'field by field with the glibc typedefs (L-CONF); enum fields carry the table the machine calls for and the '
        'pass-through default (L-ENUM); extended-numbering predicates decided by boundary tables (E-ii); table '
        'addressing formulas in normal form (I-STRIDE); type->class dispatch of _make_section/_make_segment against '
        'the gABI table (G-SIG); name-map/enumeration agreement (W-MAP); e_ident detection (W-IDENT); G-LIT.')
    ctx.assumptions += ['struct.unpack decodes bytes as documented (CPython)',
                        'construct Struct/Enum/Array semantics as implemented in elftools/construct',
                        'glibc elf.h typedefs are the reference layouts']
    thorough = ctx.tier == 'thorough'
    ctx.rule('L-CONF', 'flattened struct layout equals the registry typedef per class/byte order')
    ctx.rule('L-ENUM', 'code fields are Enums over the right table with pass-through default')
    ctx.rule('E-ii', 'extended-numbering predicate partitions the 16-bit range at the gABI escape value')
    ctx.rule('I-STRIDE', 'table entry n is addressed at table offset + n * entry size from the header')
    ctx.rule('G-SIG', 'type -> class dispatch equals the gABI table')
    ctx.rule('W-MAP', 'name map is built from the enumeration with its own index; lookups go through it')
    ctx.rule('W-IDENT', 'class and byte order are detected from e_ident bytes 4 and 5')
    ctx.rule('W-WIRE', 'constructor and header accessors are wired to the right struct / offset')
    ctx.rule('G-LIT', 'enum-family literals are defined names')
    ctx.guard('L-PRIM', 'macros', layout.prim_table, w, None)

    # 1. layouts
    machines = ['EM_386', 'EM_MIPS'] if not thorough else all_machines(w)
    for name in ('Elf_Ehdr', 'Elf_Phdr', 'Elf_Shdr'):
        ctx.guard('L-CONF', name, elfconf.check_glibc_struct, ctx, w, name, 'L-CONF', machines)
    ctx.floor('L-CONF', 200)

    # 2. enums
    ctx.guard('L-ENUM', 'enums', check_enums, ctx, w, thorough)
    ctx.floor('L-ENUM', 30)

    # 3. extended numbering
    for fn in sorted(W.EXT_NUMBERING):
        ctx.guard('E-ii', fn, check_ext_numbering, ctx, w, fn)
    ctx.floor('E-ii', 15)

    # 4. strides
    ctx.guard('I-STRIDE', '_section_offset', check_stride, ctx, w, '_section_offset', 'e_shoff', 'e_shentsize', 'Elf_Shdr')
    ctx.guard('I-STRIDE', '_segment_offset', check_stride, ctx, w, '_segment_offset', 'e_phoff', 'e_phentsize', 'Elf_Phdr')
    ctx.floor('I-STRIDE', 4)

    # 5. dispatch
    ctx.guard('G-SIG', '_make_section', check_make_section, ctx, w)
    ctx.guard('G-SIG', '_make_segment', check_make_segment, ctx, w)
    ctx.guard('G-SIG', 'link validators', check_link_validators, ctx, w)
    ctx.floor('G-SIG', 25)

    # 6. map / enumeration
    ctx.guard('W-MAP', 'name map', check_name_map, ctx, w)
    ctx.floor('W-MAP', 8)
    ctx.guard('W-IDENT', '_identify_file', check_identify, ctx, w)
    ctx.floor('W-IDENT', 5)
    ctx.guard('W-WIRE', 'wiring', check_wiring, ctx, w)
    ctx.floor('W-WIRE', 8)

    ctx.guard('G-LIT', 'literals', literals.glit, ctx, w, ['elf/elffile.py', 'elf/structs.py', 'elf/segments.py'],
              only={'elf/structs.py': ('ELFStructs._create_ehdr', 'ELFStructs._create_phdr', 'ELFStructs._create_shdr',
                                       'ELFStructs.create_', 'ELFStructs.__')})
    ctx.floor('G-LIT', 40)


def all_machines(w):
    t = w.table('elf/enums.py', 'ENUM_E_MACHINE')
    return sorted(k for k in t if isinstance(k, str) and k.startswith('EM_'))


def check_enums(ctx, w, thorough):
    for sname in ('Elf_Ehdr', 'Elf_Phdr', 'Elf_Shdr'):
        for field in S.PASS_THROUGH[sname]:
            tn = S.ENUM_TABLE.get((sname, field))
            elfconf.check_enum_field(ctx, w, sname, field, tn)
    for field in ('EI_CLASS', 'EI_DATA'):
        # no pass-through promised: _identify_file admits only 1/2 (checked under W-IDENT)
        elfconf.check_enum_field(ctx, w, 'Elf_Ehdr', field, S.ENUM_TABLE[('Elf_Ehdr', field)], pass_through=False)
    machines = elfconf.SWITCH_MACHINES if not thorough else all_machines(w)
    for mach in machines:
        sh = S.SH_TYPE_TABLE.get(mach, 'ENUM_SH_TYPE_BASE')
        ph = S.P_TYPE_TABLE.get(mach, 'ENUM_P_TYPE_BASE')
        elfconf.check_enum_field(ctx, w, 'Elf_Shdr', 'sh_type', sh, machine=mach, label='@' + mach)
        elfconf.check_enum_field(ctx, w, 'Elf_Phdr', 'p_type', ph, machine=mach, label='@' + mach)
    # the OS ABI may add OS-specific names but never takes the processor's names away: DT/SHT/PT_LOOS..HIOS and LOPROC..HIPROC are disjoint
    # ranges, decided separately (gABI; binutils get_segment_type / get_section_type_name).  Configurations from the tree: every OS ABI name
    # the struct factory mentions, plus two it does not.
    osabis = sorted(set(n.value for n in ast.walk(w.model.tree('elf/structs.py')) if isinstance(n, ast.Constant) and isinstance(n.value, str) and
                        n.value.startswith('ELFOSABI_')) | {'ELFOSABI_LINUX', 'ELFOSABI_OPENBSD'})
    for mach in elfconf.SWITCH_MACHINES:
        for sname, field in (('Elf_Shdr', 'sh_type'), ('Elf_Phdr', 'p_type')):
            ref = elfconf.enum_of(w, elfconf.structs_for(w, True, 64, machine=mach, e_type='ET_EXEC', osabi='ELFOSABI_SYSV'), sname, field)
            for osabi in osabis:
                got = elfconf.enum_of(w, elfconf.structs_for(w, True, 64, machine=mach, e_type='ET_EXEC', osabi=osabi), sname, field)
                lost = sorted(k for k, v in (ref[2] if ref else {}).items() if not got or got[2].get(k) != v)
                ctx.ob('L-ENUM', 'elf/structs.py:ELFStructs.%s' % sname, '%s.%s@%s,%s keeps the names of %s' % (sname, field, mach, osabi, mach), ref is not None and not lost,
                       got=lost[:4], msg='under this OS ABI the field loses names it has for the same machine under ELFOSABI_SYSV: a processor-specific code '
                                         'of such a file is reported as a raw integer')
    # machine-prefixed names only in their own table
    env = w.interp.module_env('elf/enums.py').vars
    for fam, pref in (('ENUM_SH_TYPE_', 'SHT_'), ('ENUM_P_TYPE_', 'PT_')):
        base = env.get(fam + 'BASE')
        for mach_pref in ('ARM_', 'AARCH64_', 'MIPS_', 'RISCV_', 'X86_64_', 'AMD64_'):
            bad = [k for k in (base or {}) if isinstance(k, str) and k.startswith(pref + mach_pref)]
            ctx.ob('L-ENUM', 'elf/enums.py:%sBASE' % fam, 'no %s%s names in base' % (pref, mach_pref), not bad,
                   msg='machine-specific name in the base table', got=bad)


def _field_cond_paths(func, field):
    """[(conds_on_field, return_expr)]: returning paths with only the conditions that mention the field."""
    out = []
    for conds, ret, p in paths.returns_with_conds(func):
        rel = [(t, pol) for (t, pol) in conds if field in dispatch.field_reads(t) or
               any(isinstance(x, ast.Attribute) and x.attr == field for x in ast.walk(t))]
        other = [(t, pol) for (t, pol) in conds if (t, pol) not in rel]
        out.append((rel, other, ret))
    return out


def check_ext_numbering(ctx, w, fn):
    field, escape, fallback = W.EXT_NUMBERING[fn]
    f = w.model.func(FILE, 'ELFFile.' + fn)
    consts = {'SHN_INDICES.SHN_XINDEX': None}
    shn = w.interp.module_env('elf/constants.py').vars.get('SHN_INDICES')
    cvals = dict(('SHN_INDICES.' + k, v) for k, v in getattr(shn, 'attrs', {}).items() if isinstance(v, int))
    construct = f.construct
    points = sorted(set([0, 1, 2, 0xfeff, 0xff00, 0xff01, 0xfffe, 0xffff]))
    rows = _field_cond_paths(f.node, field)
    if not rows:
        raise AnalysisError('E-ii', construct, 'no returning path found')
    for pt in points:
        taken = []
        for rel, other, ret in rows:
            ok = True
            for (t, pol) in rel:
                t2 = _subst_consts(t, cvals)
                try:
                    val = expr.partition(t2, field, [pt])[pt]
                except AnalysisError as e:
                    # the predicate on the count field drags another header field in: that is not the gABI decision (which
                    # reads this one field), so it is a finding about the code, not a limit of the analyser
                    ctx.ob('E-ii', construct, 'predicate on %s reads only %s' % (field, field), False, got=U(t), line=f.node.lineno,
                           msg='the extended-numbering decision depends on another header field than the gABI escape (%s)' % e.why)
                    return
                if val != pol:
                    ok = False
                    break
            if ok:
                taken.append((other, ret))
        want_fallback = (pt == escape)
        good = bool(taken)
        got_desc = []
        for other, ret in taken:
            # paths guarded by unrelated preconditions returning a constant (e_shoff == 0 -> 0) are allowed
            if other and isinstance(ret, ast.Constant):
                got_desc.append('const-under-precondition')
                continue
            if want_fallback:
                ok = _is_fallback(ret, fallback, f.node)
            else:
                ok = expr.nfs(ret, expr.FEnv(f.node)) == field and not _has_call(ret)
            got_desc.append(U(ret) if ret is not None else 'None')
            good = good and ok
        ctx.ob('E-ii', construct, '%s=%#x' % (field, pt), good,
               msg='extended-numbering predicate/fallback deviates from gABI (%s escape %#x -> section header 0 %s)'
                   % (field, escape, fallback), got=got_desc,
               expected=('section header 0 [%s]' % fallback) if want_fallback else field, line=f.node.lineno,
               sample='%s at %s=%#x -> %s' % (fn, field, pt, 'sh0.' + fallback if want_fallback else field))


def _subst_consts(t, cvals):
    import copy
    t = copy.deepcopy(t)

    class R(ast.NodeTransformer):
        def visit_Attribute(self, n):
            try:
                d = U(n)
            except Exception:
                d = None
            if d in cvals:
                return ast.copy_location(ast.Constant(value=cvals[d]), n)
            return self.generic_visit(n)
    t = R().visit(t)
    ast.fix_missing_locations(t)
    return t


def _has_call(n):
    return any(isinstance(x, ast.Call) for x in ast.walk(n))


def _is_fallback(ret, fallback, fnode=None):
    """X(0)['<fallback>'] with X in {_get_section_header, get_section}"""
    if not (isinstance(ret, ast.Subscript) and isinstance(ret.slice, ast.Constant) and ret.slice.value == fallback):
        if isinstance(ret, ast.Attribute) and ret.attr == fallback:
            base = ret.value
        else:
            return False
    else:
        base = ret.value
    if isinstance(base, ast.Name) and fnode is not None:
        # local alias of the header: `header = self._get_section_header(0)` (single assignment), possibly None-tested in between
        vals = [st.value for st in ast.walk(fnode) if isinstance(st, ast.Assign) and len(st.targets) == 1 and
                isinstance(st.targets[0], ast.Name) and st.targets[0].id == base.id]
        if len(vals) == 1:
            base = vals[0]
    if not isinstance(base, ast.Call):
        return False
    nm = dispatch.callee_name(base)
    if nm not in ('self._get_section_header', 'self.get_section'):
        return False
    return len(base.args) >= 1 and isinstance(base.args[0], ast.Constant) and base.args[0].value == 0


def check_stride(ctx, w, fn, off, entsize, struct):
    f = w.model.func(FILE, 'ELFFile.' + fn)
    env = expr.FEnv(f.node, params=('n',))
    rets = expr.returns_of(f.node)
    if not rets:
        raise AnalysisError('I-STRIDE', f.construct, 'no return')
    want = expr.spec_nf('%s + n * %s' % (off, entsize))
    for r in rets:
        got = expr.nfs(r.value, env)
        ctx.ob('I-STRIDE', f.construct, 'offset formula', got == want,
               msg='entry offset is not table offset + n * entry size taken from the file header',
               got=got, expected=want, line=r.lineno, sample='%s(n) = %s' % (fn, want))
    # the "too small" guard compares the header entry size with the struct's sizeof()
    want_atom = '[%s + -1*sizeof(%s) < 0]' % (entsize, struct)
    found = False
    for p in paths.func_paths(f.node):
        if p.end[0] == 'raise':
            cs = [expr.cond_str(t, env, negate=not pol) for t, pol in p.conds()]
            if any(want_atom in c for c in cs):
                exc = p.end[1]
                if exc is not None and 'ELFError' in U(exc):
                    found = True
    ctx.ob('I-STRIDE', f.construct, 'entry-size guard', found,
           msg='no ELFError guard comparing %s with %s.sizeof()' % (entsize, struct),
           expected=want_atom, line=f.node.lineno)


def _branch_class(w, call, depth=0):
    """Resolve what a `return X(...)` constructs: class name, link kind, link field."""
    nm = dispatch.callee_name(call)
    if nm is None:
        return (None, None, None)
    if nm.startswith('self.'):
        m = w.model.func(FILE, 'ELFFile.' + nm[5:])
        rc = dispatch.returned_calls(m.node.body)
        if len(rc) != 1 or depth > 2:
            raise AnalysisError('G-SIG', m.construct, 'helper does not return a single constructor call')
        cls, _, _ = _branch_class(w, rc[0], depth + 1)
        link = None
        field = None
        env = expr.FEnv(m.node)
        for c in expr.calls_in(m.node, attr='_get_linked_strtab_section') + expr.calls_in(m.node, attr='_get_linked_symtab_section'):
            link = 'strtab' if c.func.attr == '_get_linked_strtab_section' else 'symtab'
            field = expr.nfs(c.args[0], env) if c.args else None
        if link is None:
            # SymbolTableIndexSection keeps the raw index
            for kw in rc[0].keywords:
                if kw.arg == 'symboltable':
                    link = 'index'
                    field = expr.nfs(kw.value, env)
        return (cls, link, field)
    return (nm, None, None)


def check_make_section(ctx, w):
    f = w.model.func(FILE, 'ELFFile._make_section')
    chains = dispatch.find_chain(f.node, dispatch.subject_name('sectype'), min_branches=3)
    env = expr.FEnv(f.node)
    # the subject is the parsed sh_type of the header
    subj = expr.nfs(ast.Name(id='sectype', ctx=ast.Load()), env)
    ctx.ob('G-SIG', f.construct, 'subject', subj == 'sh_type', msg='dispatch is not keyed on sh_type', got=subj,
           expected='sh_type', line=f.node.lineno)
    if not chains:
        raise AnalysisError('G-SIG', f.construct, 'dispatch chain on the section type not found')
    branches = chains[0]
    eff = {}
    stab = None
    else_cls = None
    for b in branches:
        if b.is_else:
            rc = dispatch.returned_calls(b.body)
            else_cls = _branch_class(w, rc[0])[0] if rc else None
            continue
        rc = dispatch.returned_calls(b.body)
        if len(rc) != 1:
            raise AnalysisError('G-SIG', f.construct, 'branch %s does not return one constructor call' % sorted(b.keys))
        res = _branch_class(w, rc[0])
        if b.extra:
            conds = [expr.cond_str(x, expr.FEnv(f.node, inline=False)) for x in b.extra]
            if conds == [expr.spec_cond("name == '.stab'")]:
                for k in b.keys:
                    stab = (k, '.stab', res[0])
            else:
                ctx.note('branch %s has extra condition %s (listed, not compared)' % (sorted(b.keys), conds))
            continue
        for k in b.keys:
            eff.setdefault(k, (res, b.line))
    for key, (cls, link) in sorted(W.MAKE_SECTION.items()):
        got = eff.get(key)
        ok = got is not None and got[0][0] == cls and got[0][1] == link and (link is None or got[0][2] == 'sh_link')
        ctx.ob('G-SIG', f.construct, key, ok, msg='section type is not dispatched to the class/link the gABI calls for',
               got=got[0] if got else None, expected=(cls, link, 'sh_link' if link else None),
               line=got[1] if got else f.node.lineno,
               sample='_make_section[%s] -> %s link=%s' % (key, cls, link))
    ctx.ob('G-SIG', f.construct, 'SHT_PROGBITS/.stab', stab == W.MAKE_SECTION_STAB,
           msg='.stab section is not dispatched to StabSection', got=stab, expected=W.MAKE_SECTION_STAB)
    ctx.ob('G-SIG', f.construct, 'else', else_cls == W.MAKE_SECTION_ELSE, msg='default section class', got=else_cls,
           expected=W.MAKE_SECTION_ELSE)
    for k in sorted(set(eff) - set(W.MAKE_SECTION)):
        ctx.note('_make_section handles %s -> %s (not in the spec table; listed)' % (k, eff[k][0][0]))
    # the name handed to the constructors comes from the section-header string table at sh_name
    g = w.model.func(FILE, 'ELFFile._get_section_name')
    genv = expr.FEnv(g.node)
    rets = expr.returns_of(g.node)
    ok = len(rets) == 1 and expr.nfs(rets[0].value, genv) == 'get_string(_section_header_stringtable,sh_name)'
    ctx.ob('G-SIG', g.construct, 'name lookup', ok, msg='section name is not read from the header string table at sh_name',
           got=expr.nfs(rets[0].value, genv) if rets else None, expected='get_string(_section_header_stringtable,sh_name)')


def check_make_segment(ctx, w):
    f = w.model.func(FILE, 'ELFFile._make_segment')
    chains = dispatch.find_chain(f.node, dispatch.subject_name('segtype'), min_branches=2)
    env = expr.FEnv(f.node)
    subj = expr.nfs(ast.Name(id='segtype', ctx=ast.Load()), env)
    ctx.ob('G-SIG', f.construct, 'subject', subj == 'p_type', msg='dispatch is not keyed on p_type', got=subj)
    if not chains:
        raise AnalysisError('G-SIG', f.construct, 'dispatch chain on the segment type not found')
    eff = {}
    else_cls = None
    for b in chains[0]:
        rc = dispatch.returned_calls(b.body)
        cls = dispatch.callee_name(rc[0]) if rc else None
        if b.is_else:
            else_cls = cls
        elif not b.extra:
            for k in b.keys:
                eff.setdefault(k, cls)
    for k, cls in sorted(W.MAKE_SEGMENT.items()):
        ctx.ob('G-SIG', f.construct, k, eff.get(k) == cls, msg='segment type dispatched to the wrong class',
               got=eff.get(k), expected=cls, sample='_make_segment[%s] -> %s' % (k, cls))
    ctx.ob('G-SIG', f.construct, 'else', else_cls == W.MAKE_SEGMENT_ELSE, got=else_cls, expected=W.MAKE_SEGMENT_ELSE)


def check_link_validators(ctx, w):
    for helper, types in sorted(W.LINK_VALIDATORS.items()):
        f = w.model.func(FILE, 'ELFFile.' + helper)
        env = expr.FEnv(f.node, params=('n',))
        # exists a raise ELFError exactly when sh_type not in types
        if len(types) == 1:
            want = expr.spec_cond("sh_type != '%s'" % types[0])
        else:
            want = expr.spec_cond("sh_type not in (%s)" % ', '.join(repr(t) for t in types))
        ok = False
        got = []
        for p in paths.func_paths(f.node):
            if p.end[0] == 'raise' and p.end[1] is not None and 'ELFError' in U(p.end[1]):
                cs = [expr.cond_str(t, env, negate=not pol) for t, pol in p.conds()]
                got.append(cs)
                if cs == [want]:
                    ok = True
        ctx.ob('G-SIG', f.construct, 'type validation', ok, msg='link target type is not validated as the gABI requires',
               got=got, expected=want, line=f.node.lineno)
        # the header validated is the one at index n and the section is made from that header
        rets = expr.returns_of(f.node)
        ok2 = bool(rets) and all(expr.nfs(r.value, env) == '_make_section(self,_get_section_header(self,n))' for r in rets)
        ctx.ob('G-SIG', f.construct, 'returns section n', ok2, msg='validator does not return the section made from header n',
               got=[expr.nfs(r.value, env) for r in rets])


def check_name_map(ctx, w):
    f = w.model.func(FILE, 'ELFFile._make_section_name_map')
    loops = [n for n in ast.walk(f.node) if isinstance(n, ast.For)]
    ok = False
    why = 'no loop'
    for lp in loops:
        it = lp.iter
        if isinstance(it, ast.Call) and isinstance(it.func, ast.Name) and it.func.id == 'enumerate':
            src = U(it.args[0]) if it.args else ''
            start_ok = len(it.args) == 1 and not it.keywords or \
                (len(it.args) == 2 and isinstance(it.args[1], ast.Constant) and it.args[1].value == 0)
            if src != 'self.iter_sections()':
                why = 'enumerates %s' % src
                continue
            if not start_ok:
                why = 'enumerate start is not 0'
                continue
            if not (isinstance(lp.target, ast.Tuple) and len(lp.target.elts) == 2 and
                    all(isinstance(e, ast.Name) for e in lp.target.elts)):
                why = 'loop target'
                continue
            ivar, svar = lp.target.elts[0].id, lp.target.elts[1].id
            for st in lp.body:
                if isinstance(st, ast.Assign) and len(st.targets) == 1 and isinstance(st.targets[0], ast.Subscript):
                    t = st.targets[0]
                    if U(t.value) == 'self._section_name_map' and U(t.slice) == svar + '.name' and \
                            isinstance(st.value, ast.Name) and st.value.id == ivar:
                        ok = True
                    else:
                        why = 'stores %s' % U(st)
    ctx.ob('W-MAP', f.construct, 'map[name] = enumeration index', ok, msg='name map not filled from the enumeration index: ' + why,
           line=f.node.lineno)
    # lookups consult only the map, behind the lazy-init guard
    for fn, want in (('get_section_by_name', None), ('get_section_index', None), ('has_section', None)):
        g = w.model.func(FILE, 'ELFFile.' + fn)
        uses = [n for n in ast.walk(g.node) if isinstance(n, ast.Attribute) and n.attr == '_section_name_map' and
                isinstance(n.ctx, ast.Load)]
        guarded = True
        for u in uses:
            # skip the use inside the guard test itself
            for p in paths.paths_reaching(g.node, u):
                evs = p.events
                init = False
                for ev in evs:
                    if ev[0] == 'stmt' and 'self._make_section_name_map()' in U(ev[1]):
                        init = True
                    if ev[0] == 'cond' and expr.cond_str(ev[1], None, negate=not ev[2]) == expr.spec_cond('_section_name_map is not None'):
                        init = True
                in_test = any(ev[0] == 'cond' and paths.contains_node(ev[1], u) for ev in evs) or \
                    not evs and _in_first_test(g.node, u)
                if not init and not _in_guard_test(g.node, u):
                    guarded = False
        ctx.ob('W-MAP', g.construct, 'lazy-init guard dominates map use', guarded and bool(uses),
               msg='section-name map used on a path where it may not have been built', line=g.node.lineno)
    g = w.model.func(FILE, 'ELFFile.get_section_by_name')
    env = expr.FEnv(g.node, params=('name',))
    rets = expr.returns_of(g.node)
    want = "ite([is:get(_section_name_map,name,None) is None],None,get_section(self,get(_section_name_map,name,None)))"
    got = [expr.nfs(r.value, env) for r in rets]
    ok = any('get_section(self,get(_section_name_map,name' in x for x in got)
    ctx.ob('W-MAP', g.construct, 'index resolved through get_section', ok,
           msg='name lookup does not resolve the stored index through get_section (the enumeration index space)', got=got)
    g = w.model.func(FILE, 'ELFFile.get_section_index')
    env = expr.FEnv(g.node, params=('name',))
    got = [expr.nfs(r.value, env) for r in expr.returns_of(g.node)]
    ctx.ob('W-MAP', g.construct, 'returns stored index', got in (['get(_section_name_map,name,None)'], ['get(_section_name_map,name)']),
           msg='index lookup does not return the stored enumeration index', got=got)
    # iter_sections / iter_segments enumerate 0..num-1 through get_section/get_segment
    for fn, num, get, typ in (('iter_sections', 'num_sections', 'get_section', 'sh_type'),
                              ('iter_segments', 'num_segments', 'get_segment', 'p_type')):
        g = w.model.func(FILE, 'ELFFile.' + fn)
        loops = [n for n in ast.walk(g.node) if isinstance(n, ast.For)]
        ok = False
        for lp in loops:
            if U(lp.iter) == 'range(self.%s())' % num and isinstance(lp.target, ast.Name):
                i = lp.target.id
                body = U(lp)
                if 'self.%s(%s)' % (get, i) in body:
                    ys = [n for n in ast.walk(lp) if isinstance(n, ast.Yield)]
                    ok = len(ys) == 1
                    # filter: yields when type is None or element type equals the filter
                    ifs = [n for n in lp.body if isinstance(n, ast.If)]
                    if ifs:
                        c = expr.cond_str(ifs[0].test, expr.FEnv(g.node, params=('type',)))
                        ok = ok and c == expr.spec_cond("type is None or %s == type" % typ)
        ctx.ob('W-MAP', g.construct, 'enumerates range(%s()) through %s' % (num, get), ok,
               msg='enumeration does not visit indices 0..count-1 in order with the documented type filter',
               line=g.node.lineno)
    # get_section(n) -> header n ; get_segment(n) -> header n
    for fn, hdr, mk in (('get_section', '_get_section_header', '_make_section'), ('get_segment', '_get_segment_header', '_make_segment')):
        g = w.model.func(FILE, 'ELFFile.' + fn)
        env = expr.FEnv(g.node, params=('n', 'type'))
        got = [expr.nfs(r.value, env) for r in expr.returns_of(g.node)]
        want = '%s(self,%s(self,n))' % (mk, hdr)
        ctx.ob('W-MAP', g.construct, 'index forwarded', got == [want], msg='accessor does not build the object from header n',
               got=got, expected=want)


def _in_guard_test(func, u):
    for n in ast.walk(func):
        if isinstance(n, ast.If) and paths.contains_node(n.test, u):
            return True
    return False


def _in_first_test(func, u):
    return _in_guard_test(func, u)


def check_identify(ctx, w):
    f = w.model.func(FILE, 'ELFFile._identify_file')
    # sequence of stream operations
    ops = []
    for n in sorted([x for x in ast.walk(f.node) if isinstance(x, ast.Call) and isinstance(x.func, ast.Attribute) and
                     x.func.attr in ('seek', 'read') and 'stream' in U(x.func.value)],
                    key=lambda x: (x.lineno, x.col_offset)):
        ops.append((n.func.attr, U(n.args[0]) if n.args else ''))
    ctx.ob('W-IDENT', f.construct, 'reads bytes 0-3,4,5', ops == [('seek', '0'), ('read', '4'), ('read', '1'), ('read', '1')],
           msg='identification no longer reads magic at 0 and the class/data bytes at 4 and 5', got=ops,
           expected=[('seek', '0'), ('read', '4'), ('read', '1'), ('read', '1')], line=f.node.lineno)
    # which variable holds which read (in order)
    reads = []
    for st in f.node.body:
        if isinstance(st, ast.Assign) and isinstance(st.value, ast.Call) and isinstance(st.value.func, ast.Attribute) \
                and st.value.func.attr == 'read' and isinstance(st.targets[0], ast.Name):
            reads.append(st.targets[0].id)
    if len(reads) != 3:
        raise AnalysisError('W-IDENT', f.construct, 'expected three reads assigned to names, got %r' % reads)
    magic, cls, data = reads
    # magic check
    env = expr.FEnv(f.node, inline=False)
    magic_ok = False
    for n in ast.walk(f.node):
        if isinstance(n, ast.Call) and isinstance(n.func, ast.Name) and n.func.id == 'elf_assert' and n.args:
            if expr.cond_str(n.args[0], env) == expr.cond_str(ast.parse("%s == b'\\x7fELF'" % magic, mode='eval').body, env):
                magic_ok = True
    ctx.ob('W-IDENT', f.construct, 'magic', magic_ok, msg='magic number is not asserted to be \\x7fELF via elf_assert')
    # class/data chains
    for var, attr, table in ((cls, 'elfclass', {b'\x01': 32, b'\x02': 64}), (data, 'little_endian', {b'\x01': True, b'\x02': False})):
        chains = dispatch.find_chain(f.node, dispatch.subject_name(var), min_branches=2)
        got = {}
        else_raises = False
        if chains:
            for b in chains[0]:
                if b.is_else:
                    else_raises = any(isinstance(s, ast.Raise) and s.exc is not None and 'ELFError' in U(s.exc)
                                      for s in b.body)
                    continue
                for st in b.body:
                    if isinstance(st, ast.Assign) and U(st.targets[0]) == 'self.' + attr and \
                            isinstance(st.value, ast.Constant):
                        for k in b.keys:
                            got[k] = st.value.value
        ctx.ob('W-IDENT', f.construct, attr + ' table', got == table, msg='e_ident byte is mapped to the wrong ' + attr,
               got=got, expected=table)
        ctx.ob('W-IDENT', f.construct, attr + ' else raises ELFError', else_raises,
               msg='invalid e_ident byte is not rejected with ELFError')


def check_wiring(ctx, w):
    f = w.model.func(FILE, 'ELFFile.__init__')
    calls = [n for n in ast.walk(f.node) if isinstance(n, ast.Call)]
    env = expr.FEnv(f.node)
    es = [c for c in calls if dispatch.callee_name(c) == 'ELFStructs']
    ok = False
    if es:
        kws = dict((k.arg, expr.nfs(k.value, env)) for k in es[0].keywords)
        pos = [expr.nfs(a, env) for a in es[0].args]
        ok = kws == {'little_endian': 'little_endian', 'elfclass': 'elfclass'} or pos == ['little_endian', 'elfclass']
    ctx.ob('W-WIRE', f.construct, 'ELFStructs(little_endian, elfclass)', ok,
           msg='struct factory is not configured with the detected byte order and class', line=f.node.lineno)
    adv = [c for c in calls if isinstance(c.func, ast.Attribute) and c.func.attr == 'create_advanced_structs']
    got = [expr.nfs(a, env) for a in adv[0].args] if adv else None
    if adv and adv[0].keywords:
        got = dict((k.arg, expr.nfs(k.value, env)) for k in adv[0].keywords)
        ok = got == {'e_type': 'e_type', 'e_machine': 'e_machine', 'e_ident_osabi': 'e_ident.EI_OSABI'}
    else:
        ok = got == ['e_type', 'e_machine', 'e_ident.EI_OSABI']
    ctx.ob('W-WIRE', f.construct, 'create_advanced_structs(e_type, e_machine, EI_OSABI)', ok,
           msg='machine/OS specific structs are not selected by the header fields', got=got)
    order = [dispatch.callee_name(c) or (c.func.attr if isinstance(c.func, ast.Attribute) else None)
             for c in sorted(calls, key=lambda c: (c.lineno, c.col_offset))]
    seq = [x for x in order if x in ('self._identify_file', 'ELFStructs', 'create_basic_structs', 'self._parse_elf_header',
                                     'create_advanced_structs', 'self._get_section_header_stringtable')]
    want = ['self._identify_file', 'ELFStructs', 'create_basic_structs', 'self._parse_elf_header', 'create_advanced_structs',
            'self._get_section_header_stringtable']
    ctx.ob('W-WIRE', f.construct, 'construction order', seq == want, msg='constructor steps out of order', got=seq, expected=want)
    for fn, struct, pos in (('_get_section_header', 'Elf_Shdr', '_section_offset(self,n)'),
                            ('_get_segment_header', 'Elf_Phdr', '_segment_offset(self,n)'),
                            ('_parse_elf_header', 'Elf_Ehdr', '0')):
        g = w.model.func(FILE, 'ELFFile.' + fn)
        env = expr.FEnv(g.node, params=('n',))
        sp = expr.calls_in(g.node, name='struct_parse')
        ok = False
        got = None
        if len(sp) == 1:
            c = sp[0]
            s = expr.nfs(c.args[0], env) if c.args else None
            st = expr.nfs(c.args[1], env) if len(c.args) > 1 else None
            p = expr.arg_of(c, 2, 'stream_pos')
            got = (s, st, expr.nfs(p, env) if p is not None else None)
            ok = got == (struct, 'stream', pos)
        ctx.ob('W-WIRE', g.construct, 'struct_parse(%s, stream, %s)' % (struct, pos), ok,
               msg='header is not parsed with the right struct at the computed offset', got=got,
               expected=(struct, 'stream', pos), line=g.node.lineno)
    g = w.model.func(FILE, 'ELFFile._get_section_header_stringtable')
    env = expr.FEnv(g.node)
    st = [c for c in ast.walk(g.node) if isinstance(c, ast.Call) and dispatch.callee_name(c) == 'StringTableSection']
    ok = False
    got = None
    if st:
        hdr = expr.arg_of(st[0], 0, 'header')
        got = expr.nfs(hdr, env) if hdr is not None else None
        ok = got == '_get_section_header(self,get_shstrndx(self))'
    ctx.ob('W-WIRE', g.construct, 'name table = section get_shstrndx()', ok,
           msg='section-name string table is not the section designated by e_shstrndx / its escape', got=got)
    # gABI: e_shstrndx == SHN_UNDEF means the file has no section name string table.  The names of its sections are then not encoded at
    # all; taking section 0 (offset 0) for the table reads "names" out of the ELF header.  Some returning path must be conditioned on the
    # index being SHN_UNDEF / 0.
    g = w.model.func(FILE, 'ELFFile._get_section_header_stringtable')
    env = expr.FEnv(g.node, inline=False)
    conds = [expr.cond_str(t, env) for c, r, p in paths.returns_with_conds(g.node) for t, pol in c]
    undef = any(('stringtable_section_num' in c or 'shstrndx' in c) and ('== 0' in c or 'SHN_UNDEF' in c) for c in conds)
    ctx.ob('W-WIRE', g.construct, 'SHN_UNDEF means no name table', undef, got=conds,
           msg='e_shstrndx == SHN_UNDEF (no section name string table) is not distinguished: section 0 is used as the table and every '
               'section name is read from the bytes of the ELF header')
    g = w.model.func(FILE, 'ELFFile.__getitem__')
    env = expr.FEnv(g.node, params=('name',))
    got = [expr.nfs(r.value, env) for r in expr.returns_of(g.node)]
    ctx.ob('W-WIRE', g.construct, 'self[name] = header[name]', got == ['index(header,name)'], got=got)


E = 'elf/elffile.py'
ST = 'elf/structs.py'
MUTANTS = [
    ('phdr-swap', ST, """                self.Elf_word('p_flags'),
                self.Elf_offset('p_offset'),""", """                self.Elf_offset('p_offset'),
                self.Elf_word('p_flags'),""", 'L-CONF'),
    ('shstrndx-word', ST, "self.Elf_half('e_shstrndx')", "self.Elf_word('e_shstrndx')", 'L-CONF'),
    ('shdr-size-word', ST, "self.Elf_xword('sh_size')", "self.Elf_word('sh_size')", 'L-CONF'),
    ('ehdr-entry-off', ST, "self.Elf_addr('e_entry')", "self.Elf_word('e_entry')", 'L-CONF'),
    ('be-half', ST, "self.Elf_half = UBInt16", "self.Elf_half = ULInt16", 'L-CONF'),
    ('pad6', ST, "Padding(7)", "Padding(6)", 'L-CONF'),
    ('phnum-le', E, "self['e_phnum'] < 0xffff", "self['e_phnum'] <= 0xffff", 'E-ii'),
    ('phnum-fallback', E, "return self.get_section(0)['sh_info']", "return self.get_section(0)['sh_link']", 'E-ii'),
    ('shnum-escape', E, "if self['e_shnum'] == 0:", "if self['e_shnum'] == 0xffff:", 'E-ii'),
    ('shstrndx-header1', E, "            header = self._get_section_header(0)\n            if header is None:", "            header = self._get_section_header(1)\n            if header is None:", 'E-ii'),
    ('shstrndx-info', E, "            return header['sh_link']", "            return header['sh_info']", 'E-ii'),
    ('stride-sizeof', E, "return self['e_shoff'] + n * shentsize", "return self['e_shoff'] + n * self.structs.Elf_Shdr.sizeof()", 'I-STRIDE'),
    ('stride-phoff', E, "return self['e_phoff'] + n * phentsize", "return self['e_shoff'] + n * phentsize", 'I-STRIDE'),
    ('guard-dropped', E, "shentsize < self.structs.Elf_Shdr.sizeof()", "shentsize < 0", 'I-STRIDE'),
    ('verdef-class', E, "return self._make_gnu_verdef_section(section_header, name)", "return self._make_gnu_verneed_section(section_header, name)", 'G-SIG'),
    ('relr-dropped', E, "elif sectype == 'SHT_RELR':", "elif sectype == 'SHT_RELRX':", 'G-'),
    ('hash-link', E, """        linked_symtab_index = section_header['sh_link']
        symtab_section = self._get_linked_symtab_section(linked_symtab_index)
        return GNUHashSection(""", """        linked_symtab_index = section_header['sh_info']
        symtab_section = self._get_linked_symtab_section(linked_symtab_index)
        return GNUHashSection(""", 'G-SIG'),
    ('strtab-validator', E, "if section_header['sh_type'] != 'SHT_STRTAB':", "if section_header['sh_type'] == 'SHT_STRTAB':", 'G-SIG'),
    ('interp-class', E, "return InterpSegment(segment_header, self.stream)", "return Segment(segment_header, self.stream)", 'G-SIG'),
    ('arm-table-aarch64', ST, "sh_type_dict = ENUM_SH_TYPE_AARCH64", "sh_type_dict = ENUM_SH_TYPE_ARM", 'L-ENUM'),
    ('riscv-ptype', ST, "p_type_dict = ENUM_P_TYPE_RISCV", "p_type_dict = ENUM_P_TYPE_BASE", 'L-ENUM'),
    ('machine-default', 'elf/enums.py', """    # unknown/reserve?  225 - 242
    _default_=Pass,""", """    # unknown/reserve?  225 - 242""", 'L-ENUM'),
    ('enumerate-1', E, "enumerate(self.iter_sections())", "enumerate(self.iter_sections(), 1)", 'W-MAP'),
    ('map-guard', E, """        if self._section_name_map is None:
            self._make_section_name_map()
        return section_name in self._section_name_map""", """        return section_name in self._section_name_map""", 'W-MAP'),
    ('class-swap', E, """        if ei_class == b'\\x01':
            self.elfclass = 32""", """        if ei_class == b'\\x01':
            self.elfclass = 64""", 'W-IDENT'),
    ('data-swap', E, "if ei_data == b'\\x01':", "if ei_data == b'\\x02':", 'W-IDENT'),
    ('shdr-struct', E, """        return struct_parse(
            self.structs.Elf_Shdr,""", """        return struct_parse(
            self.structs.Elf_Phdr,""", 'W-WIRE'),
    ('osabi-arg', E, "self['e_ident']['EI_OSABI'])", "self['e_ident']['EI_ABIVERSION'])", 'W-WIRE'),
    ('iter-range', E, "for i in range(self.num_segments()):", "for i in range(1, self.num_segments()):", 'W-MAP'),
    ('lit-typo', E, "elif sectype == 'SHT_GNU_versym':", "elif sectype == 'SHT_GNU_versyms':", 'G-'),
]
