"""C14 -- note sections and segments yield every note exactly once.

Decides (DESIGN.md §3 C14): note/descriptor struct layouts; the note walk (position, per-path advance, exact-fit
guard, progress); descriptor dispatch; property walk vs struct padding; section/segment front ends; stab walk.
"""
import ast
from sa.canon import U
from sa.world import get_world
from sa import elfconf, layout, expr, paths, streams, dispatch, literals, hrules, walks
from sa.absint import FuncV, Unknown
from sa.report import AnalysisError
from spec import elf as S

NOTES = 'elf/notes.py'
SEC = 'elf/sections.py'
SEG = 'elf/segments.py'

# (n_type, owner) -> descriptor decoding
DESC = {
    ('NT_GNU_ABI_TAG', 'GNU'): "struct_parse(Elf_abi,stream,offset)",
    ('NT_GNU_BUILD_ID', 'GNU'): 'bytes2hex(desc_data)',
    ('NT_GNU_GOLD_VERSION', 'GNU'): 'bytes2str(desc_data)',
    ('NT_PRPSINFO', None): "struct_parse(Elf_Prpsinfo,stream,offset)",
    ('NT_FILE', None): "struct_parse(Elf_Nt_File,stream,offset)",
    ('NT_GNU_PROPERTY_TYPE_0', 'GNU'): 'props',
}


def run(ctx):
    w = get_world(ctx)
    ctx.explanation.append(
        'C14: Elf_Nhdr vs glibc, note-type table by e_type, Elf_abi/Elf_Prop/Elf_Prpsinfo/Elf_Nt_File/Elf_Stabs vs hand rows '
        'for every class/byte order (and the 16-bit uid/gid machine set) (L-CONF); iter_notes: header position, per-path '
        'advance = sizeof(Nhdr)+R4(namesz)+R4(descsz), n_size, reads (I-ADV); exact-fit guard (I-FIT) and progress (I-PROG); '
        'descriptor dispatch table (G-SIG); property walk advance == struct extent for every datasz (sibling agreement, '
        'evaluated by the analyser); front ends pass (sh_offset, sh_size)/(p_offset, p_filesz) (W-FRONT); stab walk; G-LIT; H.')
    for r, d in (('L-CONF', 'layout equals registry / hand row'), ('L-ENUM', 'note type table by file type'),
                 ('I-ADV', 'per-path cursor advance and reads of the note walk'), ('I-FIT', 'guard admits an exactly fitting final record'),
                 ('I-PROG', 'every iteration advances by a positive constant'), ('G-SIG', 'descriptor dispatch'),
                 ('L-PAD', 'property padding/advance agree with the class alignment'), ('W-FRONT', 'front ends and stab walk'),
                 ('G-LIT', 'enum literals defined'), ('H-CUR', 'cursor discipline')):
        ctx.rule(r, d)
    ctx.guard('L-CONF', 'Elf_Nhdr', elfconf.check_glibc_struct, ctx, w, 'Elf_Nhdr')
    for name in ('Elf_abi', 'Elf_Stabs'):
        ctx.guard('L-CONF', name, elfconf.check_hand_struct, ctx, w, name)
    ctx.guard('L-CONF', 'Elf_Nt_File', elfconf.check_hand_struct, ctx, w, 'Elf_Nt_File', S.NT_FILE)
    ctx.guard('L-CONF', 'Elf_Prpsinfo', check_prpsinfo, ctx, w, ctx.tier == 'thorough')
    ctx.guard('L-CONF', 'Elf_Prop', check_prop, ctx, w)
    ctx.floor('L-CONF', 150)
    ctx.guard('L-ENUM', 'n_type', check_ntype, ctx, w)
    ctx.guard('I-ADV', 'iter_notes', check_walk, ctx, w)
    ctx.floor('I-ADV', 8)
    ctx.floor('I-FIT', 1)
    ctx.guard('G-SIG', 'descriptors', check_desc, ctx, w)
    ctx.floor('G-SIG', 7)
    ctx.guard('W-FRONT', 'front ends', check_front, ctx, w)
    ctx.floor('W-FRONT', 6)
    ctx.guard('G-LIT', 'literals', literals.glit, ctx, w, [NOTES, 'elf/structs.py'],
              only={'elf/structs.py': ('ELFStructs._create_note', 'ELFStructs._create_gnu_property', 'ELFStructs._create_gnu_abi',
                                       'ELFStructs._create_stabs')})
    ctx.floor('G-LIT', 15)
    # note owner names and textual descriptors go through bytes2str: it must map every byte to one character, losslessly
    ctx.rule('K-CODEC', 'bytes2str decodes bytes one-to-one (latin-1), without replacement')
    ctx.guard('K-CODEC', 'bytes2str', check_codec, ctx, w)
    ctx.floor('K-CODEC', 2)
    ctx.guard('H-CUR', 'cursor', hrules.run_h, ctx, w, [NOTES, SEC, SEG],
              only={SEC: ('NoteSection.', 'StabSection.'), SEG: ('NoteSegment.',)})
    # enumeration answers must not come out of a half-filled memo (shared with C10)
    from sa import partial
    ctx.rule('J-PARTIAL', 'the notes of an extent are never served from a container that was filled between yields or one entry per query')
    ctx.guard('J-PARTIAL', 'partial containers', partial.check_partial, ctx, w, 'J-PARTIAL', [NOTES, SEC, SEG], ('iter_notes', 'NoteSection', 'NoteSegment'))
    ctx.floor('J-PARTIAL', 1)


def check_prpsinfo(ctx, w, thorough):
    machines = ['EM_386', 'EM_X86_64', 'EM_ARM', 'EM_MIPS', 'EM_FRV', 'EM_S390', 'EM_SPARC', 'EM_PPC', 'EM_SH', 'EM_68K', 'EM_M32R',
                'EM_CRIS', 'EM_MN10300', 'EM_AARCH64', 'EM_RISCV']
    if thorough:
        t = w.table('elf/enums.py', 'ENUM_E_MACHINE')
        machines = sorted(k for k in t if isinstance(k, str) and k.startswith('EM_'))
    for mach in machines:
        for cls, rows in ((32, S.PRPSINFO_32), (64, S.PRPSINFO_64)):
            ug = 'u16' if (cls == 32 and mach in S.UGID16_MACHINES_32) else 'u32'
            elfconf.check_hand_struct(ctx, w, 'Elf_Prpsinfo', rows=rows, machine=mach, e_type='ET_CORE', classes=(cls,),
                                      extra=lambda c, ug=ug: {'ugid': ug}, label_extra=',' + mach)


def check_prop(ctx, w):
    construct = 'elf/structs.py:ELFStructs._create_gnu_property'
    for le in (True, False):
        e = '<' if le else '>'
        for cls in (32, 64):
            st = elfconf.structs_for(w, le, cls)
            ir = elfconf.irb(w).to_ir(layout.struct_attr(w, st, 'Elf_Prop'))
            cases = [
                ({'pr_type': 'GNU_PROPERTY_STACK_SIZE', 'pr_datasz': 4 if cls == 32 else 8}, 'u32' + e if cls == 32 else 'u64' + e),
                ({'pr_type': 'GNU_PROPERTY_X86_FEATURE_1_AND', 'pr_datasz': 4}, 'u32' + e),
                ({'pr_type': 'GNU_PROPERTY_AARCH64_FEATURE_1_AND', 'pr_datasz': 4}, 'u32' + e),
                ({'pr_type': 'GNU_PROPERTY_NO_COPY_ON_PROTECTED', 'pr_datasz': 0}, 'bytes:ctx.pr_datasz'),
                ({'pr_type': 0x12345, 'pr_datasz': 12}, 'bytes:ctx.pr_datasz'),
            ]
            for case, want in cases:
                got = layout.flatten(w, ir, case)
                exp = [('pr_type', 'u32' + e), ('pr_datasz', 'u32' + e), ('pr_data', want), (None, 'pad:roundup_padding')]
                elfconf.compare_rows(ctx, 'L-CONF', construct, elfconf.cfg_label(le, cls, ',%s/%s' % (case['pr_type'], case['pr_datasz'])), got, exp)
    # padding function and walker advance agree with the class alignment for every data size
    interp = w.interp
    for cls, k in ((32, 2), (64, 3)):
        st = elfconf.structs_for(w, True, cls)
        ir = elfconf.irb(w).to_ir(layout.struct_attr(w, st, 'Elf_Prop'))
        pad = [f for f in ir[2] if f[0] == 'pad']
        if len(pad) != 1 or not (isinstance(pad[0][1], tuple) and isinstance(pad[0][1][2], FuncV)):
            raise AnalysisError('L-PAD', construct, 'padding function not found')
        fn = pad[0][1][2]
        bad = None
        for n in range(0, 41):
            got = interp.call_func(fn, [layout.CtxV({'pr_datasz': n})], {}, None)
            want = (-n) % (1 << k)
            if got != want:
                bad = (n, got, want)
                break
        ctx.ob('L-PAD', construct, 'padding to %d bytes [ELF%d]' % (1 << k, cls), bad is None, got=bad,
               msg='property data is not padded to the class alignment', sample='Elf_Prop pad(datasz) == -datasz mod %d for datasz 0..40' % (1 << k))
    f = w.model.func(NOTES, 'iter_notes')
    env = expr.FEnv(f.node, params=('elffile', 'offset', 'size'), inline=False)
    tr = expr.assign_trace(f.node, env)
    want = [('=', 'offset'), ('+=', expr.spec_nf('roundup(pr_datasz + 8, 2 if elfclass == 32 else 3)'))]
    ctx.ob('L-PAD', f.construct, 'property walk: off += roundup(datasz + 8, 2|3 by class)', tr.get('off') == want, got=tr.get('off'), expected=want,
           msg='property walk advance disagrees with the struct extent 8 + datasz + padding')
    ops = [o.t() for o in streams.func_ops(f.node, env) if o.kind == 'parse' and o.args[0] == 'Elf_Prop']
    ctx.ob('L-PAD', f.construct, 'property parsed at off', ops == [('parse', 'stream', 'Elf_Prop', 'off')], got=ops)
    whiles = [n for n in ast.walk(f.node) if isinstance(n, ast.While)]
    inner = [n for n in whiles if U(n.test).startswith('off <')]
    envi = expr.FEnv(f.node, params=('elffile', 'offset', 'size'))
    ctx.ob('L-PAD', f.construct, 'property walk bounded by offset + n_descsz',
           len(inner) == 1 and expr.cond_str(inner[0].test, envi) == expr.spec_cond('off < offset + n_descsz'),
           got=[expr.cond_str(n.test, env) for n in inner])
    # roundup helper itself
    g = w.model.func('common/utils.py', 'roundup')
    got = [expr.nfs(r.value, expr.FEnv(g.node, params=('num', 'bits'))) for r in expr.returns_of(g.node)]
    ctx.ob('L-PAD', g.construct, 'roundup(num, bits) = (num - 1 | (1 << bits) - 1) + 1', got == [expr.spec_nf('(num - 1 | (1 << bits) - 1) + 1')], got=got)


def check_ntype(ctx, w):
    for et, tab in (('ET_CORE', 'ENUM_CORE_NOTE_N_TYPE'), ('ET_EXEC', 'ENUM_NOTE_N_TYPE'), ('ET_DYN', 'ENUM_NOTE_N_TYPE'), ('ET_REL', 'ENUM_NOTE_N_TYPE')):
        elfconf.check_enum_field(ctx, w, 'Elf_Nhdr', 'n_type', tab, e_type=et, label='@' + et)
    elfconf.check_enum_field(ctx, w, 'Elf_abi', 'abi_os', 'ENUM_NOTE_ABI_TAG_OS')
    elfconf.check_enum_field(ctx, w, 'Elf_Prop', 'pr_type', 'ENUM_NOTE_GNU_PROPERTY_TYPE')


def check_walk(ctx, w):
    f = w.model.func(NOTES, 'iter_notes')
    env = expr.FEnv(f.node, params=('elffile', 'offset', 'size'))
    whiles = sorted([n for n in ast.walk(f.node) if isinstance(n, ast.While)], key=lambda n: n.lineno)
    if not whiles:
        raise AnalysisError('I-ADV', f.construct, 'note loop not found')
    loop = whiles[0]
    adv = walks.loop_advance(loop, 'offset', env)
    H = 'sizeof(Elf_Nhdr)'
    n_paths = 0
    min_const = None
    for conds, res, p in adv:
        if res[0] != 'delta':
            if res[1] == 'raise' and isinstance(p.end[1], ast.Assert):
                continue        # the failure branch of an assertion is not a way the walk leaves a well-formed section
            ctx.ob('I-ADV', f.construct, 'loop path ends by %s' % (res[1],), False, msg='note loop has an exit/absolute jump inside the body', got=res)
            continue
        n_paths += 1
        cd = expr.Facts(conds)
        named = cd.get('T(n_namesz)')
        want = expr.spec_nf('%s + roundup(n_namesz, 2) + roundup(n_descsz, 2)' % H) if named else \
            expr.spec_nf('%s + roundup(n_descsz, 2)' % H)
        got = expr.pstr(res[1])
        if named is None:
            want = 'path must test n_namesz'
        ctx.ob('I-ADV', f.construct, 'advance (%s name)' % ('with' if named else 'without'), got == want, got=got, expected=want,
               msg='note cursor does not advance by header + padded name + padded descriptor',
               sample='iter_notes advance %s name: %s' % ('with' if named else 'without', want))
        c = walks.const_part(res[1])
        cs = expr.pstr(c)
        min_const = cs if min_const is None or len(cs) < len(min_const) else min_const
        ctx.ob('I-PROG', f.construct, 'positive constant advance on the path (%s name)' % ('with' if named else 'without'), cs == H,
               got=cs, expected=H, msg='an iteration may not advance the cursor')
    ctx.analysed['note_walk_paths'] = n_paths
    # guard: offset + A REL end with end = offset0 + size
    end_def = env.defs.get('end')
    m = walks.guard_margin(loop.test, 'offset', 'end', expr.FEnv(f.node, params=('elffile', 'offset', 'size'), inline=False))
    if m is None:
        raise AnalysisError('I-FIT', f.construct, 'loop guard is not of the form offset + A < end: %s' % U(loop.test))
    rel, a = m
    a_s = expr.pstr(expr.nf(ast.parse('0', mode='eval').body)) if not a else expr.pstr(
        dict((tuple(x if x != 'nhdr_size' else H for x in mm), c) for mm, c in a.items()))
    # minimum record: header only (namesz = descsz = 0) -> M = sizeof(Nhdr)
    if rel == '<':
        ok = a_s == '0'
    else:
        ok = a_s in ('0', H)
    ctx.ob('I-FIT', f.construct, 'guard offset + A %s end admits an exactly fitting minimum record' % rel, ok, got='A = %s, rel %s' % (a_s, rel),
           expected='A < %s for <, A <= %s for <=' % (H, H),
           msg='a final header-only note that ends exactly at the extent end is not yielded', line=loop.lineno,
           sample='iter_notes guard: offset + %s %s end, minimum record %s' % (a_s, rel, H))
    ctx.ob('I-ADV', f.construct, 'end = offset + size', end_def is not None and expr.nfs(end_def, expr.FEnv(f.node, params=('elffile', 'offset', 'size'), inline=False)) == 'offset + size')
    # what is stored / read
    tr = expr.assign_trace(f.node, expr.FEnv(f.node, params=('elffile', 'offset', 'size'), inline=False))
    ctx.ob('I-ADV', f.construct, 'n_offset = header position', tr.get('note[n_offset]') == [('=', 'offset')], got=tr.get('note[n_offset]'))
    ctx.ob('I-ADV', f.construct, 'n_size = end of note - n_offset', tr.get('note[n_size]') == [('=', expr.spec_nf('offset - n_offset'))], got=tr.get('note[n_size]'))
    ctx.ob('I-ADV', f.construct, 'descriptor bytes = read(n_descsz)', tr.get('desc_data') == [('=', 'read(stream,n_descsz)')], got=tr.get('desc_data'))
    ctx.ob('I-ADV', f.construct, 'name = C string of read(roundup(n_namesz,2))',
           tr.get('note[n_name]') == [('=', "bytes2str(parse(CString(''),read(stream,disk_namesz)))"), ('=', 'None')] and
           tr.get('disk_namesz') == [('=', 'roundup(n_namesz,2)')], got=(tr.get('note[n_name]'), tr.get('disk_namesz')))
    env2 = expr.FEnv(f.node, params=('elffile', 'offset', 'size'), inline=False)
    first = [o.t() for o in streams.ops_of(loop.body[0], env2)] + [o.t() for o in streams.ops_of(loop.body[3], env2)] if len(loop.body) > 3 else []
    ctx.ob('I-ADV', f.construct, 'header parsed at offset, stream re-positioned after it',
           first == [('parse', 'stream', 'Elf_Nhdr', 'offset'), ('seek', 'stream', 'offset', 'SEEK_SET')], got=first)
    last = [U(s) for s in loop.body[-3:]]
    ctx.ob('I-ADV', f.construct, 'advance, n_size, yield close the iteration',
           last == ["offset += roundup(note['n_descsz'], 2)", "note['n_size'] = offset - note['n_offset']", 'yield note'], got=last)


def check_desc(ctx, w):
    f = w.model.func(NOTES, 'iter_notes')
    env = expr.FEnv(f.node, params=('elffile', 'offset', 'size'), inline=False)
    chains = dispatch.find_chain(f.node, dispatch.subject_src("note['n_type']"), min_branches=3)
    if not chains:
        raise AnalysisError('G-SIG', f.construct, 'descriptor dispatch not found')
    got = {}
    else_v = None
    for b in chains[0]:
        val = None
        for st in b.body:
            if isinstance(st, ast.Assign) and U(st.targets[0]) == "note['n_desc']":
                val = expr.nfs(st.value, env)
        if b.is_else:
            else_v = val
            continue
        owner = None
        if b.extra:
            cs = [expr.cond_str(x, env) for x in b.extra]
            if cs == [expr.spec_cond("n_name == 'GNU'")]:
                owner = 'GNU'
            else:
                owner = '?' + str(cs)
        for k in b.keys:
            got.setdefault((k, owner), val)
    for key, want in sorted(DESC.items(), key=str):
        ctx.ob('G-SIG', f.construct, 'descriptor of %s/%s' % key, got.get(key) == want, got=got.get(key), expected=want,
               msg='known note type is decoded with the wrong decoder / owner condition', sample='note %s owner %s -> %s' % (key[0], key[1], want))
    ctx.ob('G-SIG', f.construct, 'unknown notes keep raw bytes', else_v == 'desc_data', got=else_v)
    for k in sorted(set(got) - set(DESC), key=str):
        ctx.note('iter_notes also decodes %s (listed)' % (k,))


def check_front(ctx, w):
    for mod, q, want in ((SEC, 'NoteSection.iter_notes', 'iter_notes(elffile,sh_offset,sh_size)'),
                         (SEG, 'NoteSegment.iter_notes', 'iter_notes(elffile,p_offset,p_filesz)')):
        f = w.model.func(mod, q)
        got = [expr.nfs(r.value, expr.FEnv(f.node)) for r in expr.returns_of(f.node)]
        ctx.ob('W-FRONT', f.construct, want, got == [want], got=got, expected=want, msg='front end passes the wrong extent to the note walk')
        r = w.model.resolve_symbol('elftools/' + mod, 'iter_notes')
        ctx.ob('W-FRONT', f.construct, 'single shared walker', r is not None and r[0] == 'func' and r[1].mod == 'elftools/' + NOTES)
    f = w.model.func(SEC, 'StabSection.iter_stabs')
    env = expr.FEnv(f.node)
    whiles = [n for n in ast.walk(f.node) if isinstance(n, ast.While)]
    envn = expr.FEnv(f.node, inline=False)
    tr = expr.assign_trace(f.node, envn)
    ctx.ob('W-FRONT', f.construct, 'offset from sh_offset, += sizeof(Elf_Stabs)', tr.get('offset') == [('=', 'sh_offset'), ('+=', 'sizeof(Elf_Stabs)')],
           got=tr.get('offset'))
    ctx.ob('W-FRONT', f.construct, 'end = sh_offset + sh_size', tr.get('end') == [('=', 'offset + size')] and tr.get('size') == [('=', 'sh_size')],
           got=(tr.get('end'), tr.get('size')))
    ctx.ob('W-FRONT', f.construct, 'guard offset < end', len(whiles) == 1 and expr.cond_str(whiles[0].test, envn) == expr.spec_cond('offset < end'))
    ops = [o.t() for o in streams.func_ops(f.node, envn) if o.kind == 'parse']
    ctx.ob('W-FRONT', f.construct, 'record parsed at offset', ops == [('parse', 'stream', 'Elf_Stabs', 'offset')], got=ops)
    ctx.ob('W-FRONT', f.construct, 'n_offset recorded', tr.get('stabs[n_offset]') == [('=', 'offset')], got=tr.get('stabs[n_offset]'))


ST = 'elf/structs.py'
def check_codec(ctx, w):
    f = w.model.func('common/utils.py', 'bytes2str')
    rets = [r.value for r in expr.returns_of(f.node)]
    ok = len(rets) == 1 and isinstance(rets[0], ast.Call) and isinstance(rets[0].func, ast.Attribute) and rets[0].func.attr == 'decode'
    codec = None
    extra = None
    if ok:
        c = rets[0]
        a = list(c.args) + [k.value for k in c.keywords if k.arg == 'encoding']
        codec = a[0].value.lower().replace('_', '-') if a and isinstance(a[0], ast.Constant) and isinstance(a[0].value, str) else None
        extra = [k.arg for k in c.keywords if k.arg != 'encoding'] + [U(x) for x in c.args[1:]]
    ctx.ob('K-CODEC', f.construct, 'decode with the one-byte-one-character codec', ok and codec in ('latin-1', 'latin1', 'iso-8859-1', 'iso8859-1', 'l1', '8859'),
           got=codec, msg='note names and textual descriptors are arbitrary bytes: only latin-1 maps every byte to exactly one character; '
           'utf-8 (with or without replacement) changes or rejects bytes >= 0x80')
    ctx.ob('K-CODEC', f.construct, 'no error handler (nothing to replace or ignore)', ok and not extra, got=extra)
    users = [g.construct for g in w.model.library_funcs() if g.mod.endswith('elf/notes.py') and any(
        isinstance(c, ast.Call) and isinstance(c.func, ast.Name) and c.func.id == 'bytes2str' for c in ast.walk(g.node))]
    ctx.ob('K-CODEC', 'elf/notes.py', 'note strings go through bytes2str', len(users) >= 1, got=users)


MUTANTS = [
    ('bytes2str-utf8', 'common/utils.py', "    return b.decode('latin-1')", "    return b.decode('utf-8', errors='replace')", 'K-CODEC'),
    ('roundup-desc-3', NOTES, "offset += roundup(note['n_descsz'], 2)", "offset += roundup(note['n_descsz'], 3)", 'I-ADV'),
    ('hdr-advance-dropped', NOTES, "        offset += nhdr_size\n", "        pass\n", 'I-'),
    ('buildid-string', NOTES, "note['n_desc'] = bytes2hex(desc_data)", "note['n_desc'] = bytes2str(desc_data)", 'G-SIG'),
    ('prop-pad-swapped', ST, "if self.elfclass == 32:\n                return roundup(ctx.pr_datasz, 2) - ctx.pr_datasz\n            return roundup(ctx.pr_datasz, 3) - ctx.pr_datasz",
     "if self.elfclass == 32:\n                return roundup(ctx.pr_datasz, 3) - ctx.pr_datasz\n            return roundup(ctx.pr_datasz, 2) - ctx.pr_datasz", 'L-PAD'),
    ('seg-memsz', SEG, "return iter_notes(self.elffile, self['p_offset'], self['p_filesz'])", "return iter_notes(self.elffile, self['p_offset'], self['p_memsz'])", 'W-FRONT'),
    ('guard-lt', NOTES, "while offset + nhdr_size <= end:", "while offset + nhdr_size < end:", 'I-FIT'),
    ('name-unpadded', NOTES, "disk_namesz = roundup(note['n_namesz'], 2)", "disk_namesz = note['n_namesz']", 'I-ADV'),
    ('prop-advance', NOTES, "off += roundup(p.pr_datasz + 8, 2 if elffile.elfclass == 32 else 3)", "off += roundup(p.pr_datasz + 8, 2)", 'L-PAD'),
    ('core-table', ST, "**(ENUM_NOTE_N_TYPE if e_type != \"ET_CORE\"\n                    else ENUM_CORE_NOTE_N_TYPE)),", "**(ENUM_NOTE_N_TYPE if e_type == \"ET_CORE\"\n                    else ENUM_CORE_NOTE_N_TYPE)),", 'L-ENUM'),
    ('prpsinfo-pad', ST, "                Padding(4),\n                self.Elf_xword('pr_flag'),", "                self.Elf_xword('pr_flag'),", 'L-CONF'),
    ('ugid-class', ST, "self.Elf_ugid = self.Elf_half if self.elfclass == 32 and self.e_machine in {", "self.Elf_ugid = self.Elf_half if self.e_machine in {", 'L-CONF'),
    ('ntfile-off', ST, "self.Elf_offset('page_offset'))),", "self.Elf_word('page_offset'))),", 'L-CONF'),
    ('stab-desc', ST, "self.Elf_half('n_desc'),", "self.Elf_word('n_desc'),", 'L-CONF'),
    ('prop-stack64', ST, "('GNU_PROPERTY_STACK_SIZE', 8, 64): self.Elf_word64('pr_data'),", "('GNU_PROPERTY_STACK_SIZE', 8, 64): self.Elf_word('pr_data'),", 'L-CONF'),
    ('abi-owner', NOTES, "if note['n_type'] == 'NT_GNU_ABI_TAG' and note['n_name'] == 'GNU':", "if note['n_type'] == 'NT_GNU_ABI_TAG':", 'G-SIG'),
    ('desc-read-padded', NOTES, "desc_data = elffile.stream.read(note['n_descsz'])", "desc_data = elffile.stream.read(roundup(note['n_descsz'], 2))", 'I-ADV'),
    ('nsize', NOTES, "note['n_size'] = offset - note['n_offset']", "note['n_size'] = offset", 'I-ADV'),
    ('stab-stride', SEC, "offset += self.structs.Elf_Stabs.sizeof()", "offset += 8", 'W-FRONT'),
    ('nhdr-type-half', ST, "Enum(self.Elf_word('n_type'),", "Enum(self.Elf_half('n_type'),", 'L-CONF'),
]
