"""C20 -- ARM/RISC-V build attributes and ARM unwind tables are decoded exactly.

Decides (DESIGN.md §3 C20): attribute walks advance from the current element (I-REL) with explicit positions
(H-YIELD); per-tag value kinds (G-SIG) and TAG literals (G-LIT); EHABI index entry stride/places and decision tree
(E-ii), byte extraction, prel31 sign-extension consistency; byte-code ring totality, partition vs IHI 0038 Table 4,
per-handler consumption, ULEB operand loop.
"""
import ast
from sa.canon import U
from sa.world import get_world
from sa import elfconf, layout, expr, paths, streams, dispatch, literals, hrules
from sa.absint import FuncV, Node, Unknown
from sa.report import AnalysisError

SEC = 'elf/sections.py'
EH = 'ehabi/ehabiinfo.py'
DEC = 'ehabi/decoder.py'

# ARM IHI 0045 / RISC-V psABI: tag -> value kind
ARM_KINDS = {
    'TAG_FILE': ['word'], 'TAG_SECTION': ['word', 'uleb-list'], 'TAG_SYMBOL': ['word', 'uleb-list'],
    'TAG_CPU_RAW_NAME': ['ntbs'], 'TAG_CPU_NAME': ['ntbs'], 'TAG_CONFORMANCE': ['ntbs'],
    'TAG_COMPATIBILITY': ['uleb', 'ntbs'], 'TAG_ALSO_COMPATIBLE_WITH': ['nested'],
}
RISCV_KINDS = {'TAG_FILE': ['word'], 'TAG_SECTION': ['word', 'uleb-list'], 'TAG_SYMBOL': ['word', 'uleb-list'], 'TAG_ARCH': ['ntbs']}

# IHI 0038 Table 4 (first match over the ring must select these handler classes); consumption in bytes ('leb' = 1 + ULEB)
def table4(b):
    if b <= 0x3f: return ('_decode_00xxxxxx', 1)
    if b <= 0x7f: return ('_decode_01xxxxxx', 1)
    if b <= 0x8f: return ('_decode_1000iiii_iiiiiiii', 2)
    if b == 0x9d: return ('_decode_10011101', 1)
    if b == 0x9f: return ('_decode_10011111', 1)
    if b <= 0x9f: return ('_decode_1001nnnn', 1)
    if b <= 0xa7: return ('_decode_10100nnn', 1)
    if b <= 0xaf: return ('_decode_10101nnn', 1)
    if b == 0xb0: return ('_decode_10110000', 1)
    if b == 0xb1: return ('_decode_10110001_0000iiii', 2)
    if b == 0xb2: return ('_decode_10110010_uleb128', 'leb')
    if b == 0xb3: return ('_decode_10110011_sssscccc', 2)
    if b <= 0xb7: return ('_decode_101101nn', 1)
    if b <= 0xbf: return ('_decode_10111nnn', 1)
    if b <= 0xc5: return ('_decode_11000nnn', 1)
    if b == 0xc6: return ('_decode_11000110_sssscccc', 2)
    if b == 0xc7: return ('_decode_11000111_0000iiii', 2)
    if b == 0xc8: return ('_decode_11001000_sssscccc', 2)
    if b == 0xc9: return ('_decode_11001001_sssscccc', 2)
    if b <= 0xcf: return ('_decode_11001yyy', 1)
    if b <= 0xd7: return ('_decode_11010nnn', 1)
    return ('spare', 1)


SPARE_HANDLERS = ('_decode_11xxxyyy', '_decode_11001yyy', '_decode_101101nn')


def run(ctx):
    w = get_world(ctx)
    ctx.explanation.append(
        'C20: the three build-attribute walks keep an explicit position advanced by the current element\'s own length (I-REL) '
        'and never resume into a relative stream use (H-YIELD); subsection header layout and format byte; per-tag value kinds of '
        'ARMAttribute/RISCVAttribute from dispatch extraction vs the ABI tag tables (G-SIG), TAG literals defined (G-LIT); EHABI '
        'index entry stride and word places (I-STRIDE), decision tree conditions and outcomes (E-ii), byte extraction; prel31 '
        'sign-extension consistency (L-SEXT); byte-code ring evaluated: totality and first-match partition over all 256 values vs '
        'IHI 0038 Table 4, per-handler consumption, ULEB operand loop (G-RING).')
    ctx.assumptions += ['mnemonic text and attribute values are runtime quantities']
    for r, d in (('I-REL', 'next element computed from the current element'), ('H-CUR', 'cursor discipline'), ('H-YIELD', 'no generator resumes into a relative use'),
                 ('L-CONF', 'subsection header layout'), ('G-SIG', 'per-tag value kinds'), ('G-LIT', 'TAG literals defined'),
                 ('I-STRIDE', 'index entry addressing'), ('E-ii', 'index entry decision tree'), ('L-SEXT', 'sign extension consistent with the field mask'),
                 ('G-RING', 'byte-code ring totality, partition, consumption')):
        ctx.rule(r, d)
    ctx.guard('I-REL', 'walks', check_walks, ctx, w)
    ctx.floor('I-REL', 9)
    ctx.guard('H-CUR', 'cursor', hrules.run_h, ctx, w, [SEC, EH, DEC], only={SEC: ('Attribute', 'ARMAttribute', 'RISCVAttribute')})
    # enumeration answers must not come out of a half-filled memo (shared with C10)
    from sa import partial
    ctx.rule('J-PARTIAL', 'the attributes of a sub-subsection are never served from a container that was filled between yields or one entry per query')
    ctx.guard('J-PARTIAL', 'partial containers', partial.check_partial, ctx, w, 'J-PARTIAL', [SEC, EH, DEC], ('Attribute', 'ARMAttribute', 'RISCVAttribute', 'EHABI'))
    ctx.floor('J-PARTIAL', 1)
    ctx.guard('L-CONF', 'subsection header', elfconf.check_hand_struct, ctx, w, 'Elf_Attr_Subsection_Header')
    for n in ('Elf_Arm_Attribute_Tag', 'Elf_RiscV_Attribute_Tag'):
        ctx.guard('L-CONF', n, elfconf.check_hand_struct, ctx, w, n)
    ctx.guard('L-CONF', 'tag enums', check_tag_enums, ctx, w)
    ctx.guard('G-SIG', 'ARM tags', check_tags, ctx, w, 'ARMAttribute', ARM_KINDS, 'ENUM_ATTR_TAG_ARM')
    ctx.guard('G-SIG', 'RISC-V tags', check_tags, ctx, w, 'RISCVAttribute', RISCV_KINDS, 'ENUM_ATTR_TAG_RISCV')
    ctx.floor('G-SIG', 14)
    ctx.guard('G-LIT', 'literals', literals.glit, ctx, w, [SEC], only={SEC: ('ARMAttribute', 'RISCVAttribute', 'Attribute')})
    ctx.floor('G-LIT', 10)
    ctx.guard('E-ii', 'index entries', check_entries, ctx, w)
    ctx.floor('E-ii', 10)
    ctx.guard('L-SEXT', 'prel31', check_prel31, ctx, w)
    ctx.floor('L-SEXT', 3)
    ctx.guard('G-RING', 'ring', check_ring, ctx, w)
    ctx.rule('G-REGS', 'register-list byte-codes name exactly the registers of IHI 0038 Table 4 for every operand byte')
    ctx.guard('G-REGS', 'register lists', check_reglists, ctx, w)
    ctx.floor('G-REGS', 9)
    ctx.floor('G-RING', 530)


def check_walks(ctx, w):
    rows = [
        ('AttributesSection._make_subsections', 'subsec_offset', 'subsec_start', 'length', expr.spec_nf('sh_offset + data_size'),
         'subsection(self,stream,structs,subsec_offset)'),
        ('AttributesSubsection._make_subsubsections', 'subsubsec_offset', 'subsubsec_start', 'value', expr.spec_nf('offset + length'),
         'subsubsection(self,stream,structs,subsubsec_offset)'),
    ]
    for q, var, start, adv, end, ctor in rows:
        f = w.model.func(SEC, q)
        env = expr.FEnv(f.node, inline=False)
        tr = expr.assign_trace(f.node, env)
        got = tr.get(var)
        ok = got is not None and len(got) == 2 and got[0] == ('=', start) and got[1][0] == '+=' and got[1][1] in (adv, 'value(header(subsubsec))')
        ctx.ob('I-REL', f.construct, 'position starts at %s and advances by the current element\'s %s' % (start, adv), ok, got=got,
               msg='the next (sub)subsection starts at the start of the current one plus its own length', sample='%s: %s += %s' % (q, var, adv))
        ctx.ob('I-REL', f.construct, 'end of the enclosing block', tr.get('end') == [('=', end)], got=tr.get('end'), expected=end)
        whiles = [n for n in ast.walk(f.node) if isinstance(n, ast.While)]
        ok = len(whiles) == 1 and expr.cond_str(whiles[0].test, env) in (expr.spec_cond('%s != end' % var), expr.spec_cond('%s < end' % var))
        ctx.ob('I-REL', f.construct, 'walk until the end of the block', ok)
        body = whiles[0].body if whiles else []
        kinds = [U(s).split('=')[0].strip() if isinstance(s, (ast.Assign, ast.AugAssign)) else type(s).__name__ for s in body]
        ctx.ob('I-REL', f.construct, 'element built at the position, position advanced, then yielded', len(body) == 3 and isinstance(body[0], ast.Assign) and
               expr.nfs(body[0].value, env) == ctor and isinstance(body[1], ast.AugAssign) and isinstance(body[2], ast.Expr) and isinstance(body[2].value, ast.Yield),
               got=[expr.nfs(body[0].value, env) if body and isinstance(body[0], ast.Assign) else None, kinds])
    f = w.model.func(SEC, 'AttributesSubsubsection._make_attributes')
    env = expr.FEnv(f.node, inline=False)
    tr = expr.assign_trace(f.node, env)
    ctx.ob('I-REL', f.construct, 'position from attr_start, re-read from the stream after each attribute', tr.get('offset') == [('=', 'attr_start'), ('=', 'tell(stream)')],
           got=tr.get('offset'))
    ctx.ob('I-REL', f.construct, 'end = offset + size in the header', tr.get('end') == [('=', expr.spec_nf('offset + value'))], got=tr.get('end'))
    whiles = [n for n in ast.walk(f.node) if isinstance(n, ast.While)]
    body = [U(s) for s in whiles[0].body] if whiles else []
    ctx.ob('I-REL', f.construct, 'seek, parse, remember position, yield', body == ['self.stream.seek(offset)', 'attribute = self.attribute(self.structs, self.stream)',
                                                                                  'offset = self.stream.tell()', 'yield attribute'], got=body)
    g = w.model.func(SEC, 'AttributesSubsubsection.__init__')
    ops = [o.t() for o in streams.func_ops(g.node, expr.FEnv(g.node, params=('stream', 'structs', 'offset', 'attribute'), inline=False))]
    ctx.ob('I-REL', g.construct, 'header parsed at the sub-subsection\'s own offset; attributes start right after it',
           ops == [('seek', 'stream', 'offset', 'SEEK_SET'), ('tell', 'stream')] and 'self.header = self.attribute(self.structs, self.stream)' in U(g.node), got=ops)
    g = w.model.func(SEC, 'AttributesSubsection.__init__')
    ops = [o.t() for o in streams.func_ops(g.node, expr.FEnv(g.node, params=('stream', 'structs', 'offset', 'header', 'subsubsection'), inline=False))]
    ctx.ob('I-REL', g.construct, 'subsection header parsed at its offset', ops == [('parse', 'stream', 'header', 'offset'), ('tell', 'stream')], got=ops)
    g = w.model.func(SEC, 'AttributesSection.__init__')
    genv = expr.FEnv(g.node, params=('header', 'name', 'elffile', 'subsection'), inline=False)
    ops = [o.t() for o in streams.func_ops(g.node, genv)]
    ctx.ob('I-REL', g.construct, 'format byte at sh_offset, subsections start right after it', ops == [('parse', 'stream', "Elf_byte('format_version')", 'sh_offset'), ('tell', 'stream')], got=ops)
    conds = [expr.cond_str(n.args[0], genv) for n in ast.walk(g.node) if isinstance(n, ast.Call) and isinstance(n.func, ast.Name) and n.func.id == 'elf_assert']
    ctx.ob('I-REL', g.construct, "format version 'A'", conds == [expr.spec_cond("chr(fv) == 'A'")], got=conds)
    for cls, sub in (('ARMAttributesSection', 'ARMAttributesSubsection'), ('RISCVAttributesSection', 'RISCVAttributesSubsection'),
                     ('ARMAttributesSubsection', 'ARMAttributesSubsubsection'), ('RISCVAttributesSubsection', 'RISCVAttributesSubsubsection'),
                     ('ARMAttributesSubsubsection', 'ARMAttribute'), ('RISCVAttributesSubsubsection', 'RISCVAttribute')):
        h = w.model.func(SEC, cls + '.__init__')
        ctx.ob('I-REL', h.construct, 'element class ' + sub, U(h.node).rstrip(')').endswith(sub), got=U(h.node)[-60:])


def check_tag_enums(ctx, w):
    elfconf.check_enum_field(ctx, w, 'Elf_Arm_Attribute_Tag', 'tag', 'ENUM_ATTR_TAG_ARM', rule='L-CONF', pass_through=False)
    elfconf.check_enum_field(ctx, w, 'Elf_RiscV_Attribute_Tag', 'tag', 'ENUM_ATTR_TAG_RISCV', rule='L-CONF', pass_through=False)
    arm = w.table('elf/enums.py', 'ENUM_ATTR_TAG_ARM')
    rv = w.table('elf/enums.py', 'ENUM_ATTR_TAG_RISCV')
    # ARM IHI 0045 Table 4 / RISC-V psABI attribute numbers of the tags whose kind is not ULEB
    for name, val in (('TAG_FILE', 1), ('TAG_SECTION', 2), ('TAG_SYMBOL', 3), ('TAG_CPU_RAW_NAME', 4), ('TAG_CPU_NAME', 5), ('TAG_COMPATIBILITY', 32),
                      ('TAG_ALSO_COMPATIBLE_WITH', 65), ('TAG_CONFORMANCE', 67)):
        ctx.ob('L-CONF', 'elf/enums.py:ENUM_ATTR_TAG_ARM', name, arm.get(name) == val, got=arm.get(name), expected=val, msg='ARM build attribute tag number')
    for name, val in (('TAG_FILE', 1), ('TAG_SECTION', 2), ('TAG_SYMBOL', 3), ('TAG_ARCH', 5)):
        ctx.ob('L-CONF', 'elf/enums.py:ENUM_ATTR_TAG_RISCV', name, rv.get(name) == val, got=rv.get(name), expected=val, msg='RISC-V attribute tag number')


def _kind_of(body, env, cls):
    """value-kind signature of a tag branch"""
    sig = []
    mod = ast.Module(body=body, type_ignores=[])
    for st in body:
        if isinstance(st, ast.Assign) and U(st.targets[0]) in ('self.value', 'self.extra'):
            v = st.value
            if isinstance(v, ast.Call) and dispatch.callee_name(v) == 'struct_parse':
                a = U(v.args[0]).replace('\n', '').replace(' ', '')
                if a.startswith('structs.Elf_word('):
                    sig.append('word')
                elif a.startswith('structs.Elf_uleb128('):
                    sig.append('uleb')
                elif a.startswith('structs.Elf_ntbs('):
                    sig.append('ntbs')
                else:
                    sig.append('?' + a)
            elif isinstance(v, ast.Call) and dispatch.callee_name(v) == cls:
                sig.append('nested')
        elif isinstance(st, ast.If):
            t = U(st.test)
            if t == "self.tag != 'TAG_FILE'":
                src = U(st)
                # a list of ULEB128 numbers closed by 0 (canonical loop form: one read at the head of each iteration, leave on 0,
                # otherwise keep the number)
                lps = [l for l in ast.walk(st) if isinstance(l, ast.While)]
                good = False
                for l in lps:
                    seen = set()
                    okl = True
                    accs = set()
                    for p in paths.enum_paths(l.body):
                        ev = expr.path_events(p, env)
                        stm = [x[1] for x in ev if x[0] == 's']
                        cs = [x[1] for x in ev if x[0] == 'c']
                        zero = expr.CP(expr.spec_cond('s_number == 0'), True)
                        if not stm or stm[0] != "s_number = struct_parse(structs.Elf_uleb128('s_number'), stream)" or len(cs) != 1 or cs[0][0] != zero[0]:
                            okl = False
                        elif cs[0] == zero:
                            seen.add('end')
                            okl = okl and stm[1:] == [] and p.end[0] == 'break'
                        else:
                            seen.add('keep')
                            # the list the numbers go to: self.extra itself, or a fresh local list that becomes self.extra after the loop
                            okl = okl and len(stm) == 2 and stm[1].endswith('.append(s_number)') and p.end[0] == 'fall'
                            if okl:
                                accs.add(stm[1][:-len('.append(s_number)')])
                    if okl and seen == {'end', 'keep'} and len(accs) == 1:
                        acc = accs.pop()
                        flat = [U(x) for x in st.body]
                        if l in st.body and flat[:st.body.index(l)].count(acc + ' = []') == 1 and \
                                (acc == 'self.extra' or (acc.isidentifier() and flat[st.body.index(l) + 1:] == ['self.extra = ' + acc])):
                            good = True
                if good:
                    sig.append('uleb-list?')      # applies to the non-FILE keys of the branch
            elif t == 'type(self.value.value) is not str':
                src = U(st)
                if "struct_parse(structs.Elf_byte('nul'), stream)" in src and 'elf_assert(nul == 0' in src:
                    sig.append('+nul-after-integer')
    return sig


def check_tags(ctx, w, cls, kinds, enum_name):
    f = w.model.func(SEC, cls + '.__init__')
    enum = w.table('elf/enums.py', enum_name)
    chains = dispatch.find_chain(f.node, dispatch.subject_src('self.tag'), min_branches=2)
    if not chains:
        raise AnalysisError('G-SIG', f.construct, 'tag dispatch not found')
    env = expr.FEnv(f.node, inline=False)
    got = {}
    else_sig = None
    for b in chains[0]:
        sig = _kind_of(b.body, env, cls)
        if b.is_else:
            else_sig = sig
            continue
        for k in b.keys:
            s = [x for x in sig if x != 'uleb-list?'] + (['uleb-list'] if 'uleb-list?' in sig and k != 'TAG_FILE' else [])
            got.setdefault(k, s)
    for tag, want in sorted(kinds.items()):
        g = got.get(tag)
        if want == ['nested']:
            ok = g == ['nested', '+nul-after-integer']
        else:
            ok = g == want
        ctx.ob('G-SIG', f.construct, tag, ok, got=g, expected=want, msg='attribute value of this tag is decoded with the wrong kind (ABI tag table)',
               sample='%s %s -> %s' % (cls, tag, want))
        ctx.ob('G-SIG', f.construct, tag + ' is a tag name', tag in enum, msg='tag literal is not defined by the tag table (dead branch)')
    ctx.ob('G-SIG', f.construct, 'all other tags are ULEB128', else_sig == ['uleb'], got=else_sig)
    for k in sorted(set(got) - set(kinds)):
        ctx.ob('G-SIG', f.construct, 'extra non-ULEB tag %s' % k, False, got=got[k], msg='a tag the ABI defines as ULEB128 is decoded differently')
    first = U(f.node.body[0]) if not isinstance(f.node.body[0].value, ast.Constant) else U(f.node.body[1])
    st = 'Elf_Arm_Attribute_Tag' if cls == 'ARMAttribute' else 'Elf_RiscV_Attribute_Tag'
    ctx.ob('G-SIG', f.construct, 'tag parsed first with ' + st, first == 'super().__init__(struct_parse(structs.%s, stream))' % st, got=first)


def check_entries(ctx, w):
    f = w.model.func(EH, 'EHABIInfo.get_entry')
    consts = w.interp.module_env('ehabi/constants.py').vars
    ctx.ob('I-STRIDE', 'ehabi/constants.py', 'index entry size 8', consts.get('EHABI_INDEX_ENTRY_SIZE') == 8, got=consts.get('EHABI_INDEX_ENTRY_SIZE'))
    env = expr.FEnv(f.node, params=('n',), inline=False)
    tr = expr.assign_trace(f.node, env)
    ctx.ob('I-STRIDE', f.construct, 'entry n at section offset + n*8', tr.get('eh_index_entry_offset') == [('=', expr.spec_nf('section_offset(self) + n * EHABI_INDEX_ENTRY_SIZE'))],
           got=tr.get('eh_index_entry_offset'))
    # (the entry position written out again or taken from the local that holds it: the same value)
    import copy
    defs = [st.value for st in ast.walk(f.node) if isinstance(st, ast.Assign) and len(st.targets) == 1 and U(st.targets[0]) == 'eh_index_entry_offset']

    def resolved(name):
        out = []
        for st in ast.walk(f.node):
            if isinstance(st, ast.Assign) and len(st.targets) == 1 and U(st.targets[0]) == name:
                v = expr._StoreSubst({'eh_index_entry_offset': defs[0]}).visit(copy.deepcopy(st.value)) if len(defs) == 1 else st.value
                out.append(('=', expr.nfs(ast.fix_missing_locations(v), env)))
        return out
    ctx.ob('I-STRIDE', f.construct, 'function offset: prel31 of word0 at the entry', resolved('function_offset') ==
           [('=', expr.spec_nf('arm_expand_prel31(word0, section_offset(self) + n * EHABI_INDEX_ENTRY_SIZE)'))], got=resolved('function_offset'))
    ctx.ob('I-STRIDE', f.construct, 'table offset: prel31 of word1 at the entry + 4', resolved('eh_table_offset') ==
           [('=', expr.spec_nf('arm_expand_prel31(word1, section_offset(self) + n * EHABI_INDEX_ENTRY_SIZE + 4)'))], got=resolved('eh_table_offset'))
    ops = [o.t() for o in streams.func_ops(f.node, env)]
    want = [('parse', 'stream', 'EH_index_struct', 'eh_index_entry_offset'), ('parse', 'stream', 'EH_table_struct', 'eh_table_offset'),
            ('seek', 'stream', expr.spec_nf('eh_table_offset + 4'), 'SEEK_SET'), ('parse', 'stream', 'EH_table_struct', None)]
    ctx.ob('I-STRIDE', f.construct, 'index entry, table word, extra words sequentially from table + 4', ops == want, got=ops, expected=want)
    g = w.model.func(EH, 'EHABIInfo.num_entry')
    tr2 = expr.assign_trace(g.node, expr.FEnv(g.node))
    ctx.ob('I-STRIDE', g.construct, 'count = sh_size // 8', tr2.get('self._num_entry') == [('=', expr.spec_nf('sh_size // EHABI_INDEX_ENTRY_SIZE'))], got=tr2.get('self._num_entry'))
    # decision tree: every returning path as (conditions, constructor)
    got = []
    for conds, ret, p in paths.returns_with_conds(f.node, asserts=False):
        cs = tuple(expr.CP(expr.cond_str(t, env), pol) for t, pol in conds if 'num_entry' not in U(t))
        ctor = dispatch.callee_name(ret) if isinstance(ret, ast.Call) else U(ret)
        got.append((cs, ctor))
    W0 = lambda m: expr.spec_cond('word0 & %s != 0' % m)
    c_corrupt0 = expr.CP(expr.spec_cond('word0 & 0x80000000 != 0'), True)
    spec = [
        ((c_corrupt0,), 'CorruptEHABIEntry'),
        ((expr.neg(c_corrupt0), expr.CP(expr.spec_cond('word1 == 1'), True)), 'CannotUnwindEHABIEntry'),
    ]
    t_table = expr.CP(expr.spec_cond('word1 & 0x80000000 == 0'), True)
    base = (expr.neg(c_corrupt0), expr.CP(expr.spec_cond('word1 == 1'), False))
    t_generic = expr.CP(expr.spec_cond('word0 & 0x80000000 == 0'), True)
    t_res = expr.CP(expr.spec_cond('word0 & 0x70000000 != 0'), True)
    p0 = expr.CP(expr.spec_cond('per_index == 0'), True)
    p12 = expr.CP(expr.spec_cond('per_index in (1, 2)'), True)       # x == 1 or x == 2 is normalised to x in (1, 2) (sa/canon.py N22)
    not_p12 = (expr.neg(p12),)
    spec += [
        (base + (t_table, t_generic), 'GenericEHABIEntry'),
        (base + (t_table, expr.neg(t_generic), t_res), 'CorruptEHABIEntry'),
        (base + (t_table, expr.neg(t_generic), expr.neg(t_res), p0), 'EHABIEntry'),
        (base + (t_table, expr.neg(t_generic), expr.neg(t_res), expr.neg(p0), p12), 'EHABIEntry'),
        (base + (t_table, expr.neg(t_generic), expr.neg(t_res), expr.neg(p0)) + not_p12, 'CorruptEHABIEntry'),
        (base + (expr.neg(t_table), expr.CP(expr.spec_cond('word1 & 0x7f000000 != 0'), True)), 'CorruptEHABIEntry'),
        (base + (expr.neg(t_table), expr.CP(expr.spec_cond('word1 & 0x7f000000 != 0'), False)), 'EHABIEntry'),
    ]
    gotset = set(got)
    # loop in the model-1/2 path adds loop events but no conditions; de-duplicate
    for cs, ctor in spec:
        ctx.ob('E-ii', f.construct, '%s when %s' % (ctor, ' & '.join(('' if pol else 'not ') + c for c, pol in cs[-2:])), (cs, ctor) in gotset,
               msg='index entry classification differs from IHI 0038 §5/§6.3', got=[g for g in got if g[1] == ctor][:2],
               sample='%s <- %s' % (ctor, [c for c, pol in cs[-1:]]))
    extra = [g for g in gotset if g not in set(spec) and g[1] != 'raise']
    ctx.ob('E-ii', f.construct, 'no other outcome', not extra, got=extra[:2])
    ctx.ob('E-ii', f.construct, 'personality index = bits 27-24', tr.get('per_index') == [('=', expr.spec_nf('(word0 >> 24) & 0x7f'))], got=tr.get('per_index'))
    ctx.ob('E-ii', f.construct, 'extra word count = bits 23-16', tr.get('more_word') == [('=', expr.spec_nf('(word0 >> 16) & 0xff'))], got=tr.get('more_word'))
    op = tr.get('opcode')
    want_op = [('=', expr.spec_nf('[(word0 & 0xFF0000) >> 16, (word0 & 0xFF00) >> 8, word0 & 0xFF]')),
               ('=', expr.spec_nf('[(word0 >> 8) & 0xff, (word0 >> 0) & 0xff]')),
               ('=', expr.spec_nf('[(word1 & 0xFF0000) >> 16, (word1 & 0xFF00) >> 8, word1 & 0xFF]'))]
    ctx.ob('E-ii', f.construct, 'byte-code bytes extracted most significant first', op == want_op, got=op, expected=want_op)
    apps = [expr.nfs(n.args[0], env) for n in ast.walk(f.node) if isinstance(n, ast.Call) and isinstance(n.func, ast.Attribute) and n.func.attr == 'append']
    want_a = [expr.spec_nf('(r >> %d) & 0xFF' % s) for s in (24, 16, 8, 0)]
    ctx.ob('E-ii', f.construct, 'extra words unpacked most significant byte first', apps == want_a, got=apps, expected=want_a)
    loops = [n for n in ast.walk(f.node) if isinstance(n, ast.For)]
    ctx.ob('E-ii', f.construct, 'one extra word per count', len(loops) == 1 and expr.nfs(loops[0].iter, env) == 'range(more_word)')
    for le in (True, False):
        cv = w.interp.class_value(w.model.cls('EHABIStructs'))
        obj = w.interp.instantiate(cv, [le], {}, None)
        e = '<' if le else '>'
        for attr, want in (('EH_index_struct', [('word0', 'u32' + e), ('word1', 'u32' + e)]), ('EH_table_struct', [('word0', 'u32' + e)])):
            ir = elfconf.irb(w).to_ir(obj.attrs.get(attr))
            got_l = layout.flatten(w, ir, {})
            ctx.ob('I-STRIDE', 'ehabi/structs.py:EHABIStructs.' + attr, 'layout [%s]' % ('LSB' if le else 'MSB'), got_l == want, got=got_l, expected=want)


def check_prel31(ctx, w):
    f = w.model.func(EH, 'arm_expand_prel31')
    env = expr.FEnv(f.node, params=('address', 'place'), inline=False)
    masks = [n.right.value for n in ast.walk(f.node) if isinstance(n, ast.BinOp) and isinstance(n.op, ast.BitAnd) and isinstance(n.right, ast.Constant) and
             isinstance(n.left, ast.Name) and n.left.id == 'address']
    if len(masks) != 1:
        raise AnalysisError('L-SEXT', f.construct, 'field mask not found')
    M = masks[0]
    ctx.ob('L-SEXT', f.construct, 'field = low 31 bits', M == 0x7fffffff, got=hex(M))
    ifs = [n for n in ast.walk(f.node) if isinstance(n, ast.If)]
    bit = None
    if ifs and isinstance(ifs[0].test, ast.BinOp) and isinstance(ifs[0].test.op, ast.BitAnd) and isinstance(ifs[0].test.right, ast.Constant):
        bit = ifs[0].test.right.value
    ctx.ob('L-SEXT', f.construct, 'sign bit is the top bit of the field', bit == (M + 1) >> 1, got=hex(bit) if bit is not None else None, expected=hex((M + 1) >> 1),
           msg='for a field masked with M the sign bit is (M+1)>>1; testing another bit mis-signs large displacements',
           sample='prel31 sign bit %#x for mask %#x' % ((M + 1) >> 1, M))
    ext = [n.value.value for n in ast.walk(f.node) if isinstance(n, ast.AugAssign) and isinstance(n.op, ast.BitOr) and isinstance(n.value, ast.Constant)]
    ctx.ob('L-SEXT', f.construct, 'extension fills exactly the bits above the field (64-bit)', ext == [0xffffffffffffffff & ~M], got=[hex(x) for x in ext],
           expected=hex(0xffffffffffffffff & ~M))
    rets = [expr.nfs(r.value, env) for r in expr.returns_of(f.node)]
    ctx.ob('L-SEXT', f.construct, 'place-relative, modulo 2^64', rets == [expr.spec_nf('location + place & 0xffffffffffffffff')], got=rets)


def _consumption(w, fv, cls_attrs, depth=0):
    """bytes consumed by a handler: set of per-path counts of `self._index += 1`; 'leb' when a loop consumes."""
    node = fv.node
    out = set()
    for p in paths.func_paths(node):
        if p.end[0] not in ('return', 'fall'):
            continue
        n = 0
        leb = False
        for ev in p.events:
            if ev[0] == 'stmt' and isinstance(ev[1], ast.AugAssign) and U(ev[1].target) == 'self._index' and isinstance(ev[1].op, ast.Add) and \
                    isinstance(ev[1].value, ast.Constant):
                n += ev[1].value.value
            if ev[0] == 'loop' and isinstance(ev[1], ast.While):
                leb = True
        # delegation: return self._other()
        if p.end[0] == 'return' and isinstance(p.end[1], ast.Call) and isinstance(p.end[1].func, ast.Attribute) and \
                isinstance(p.end[1].func.value, ast.Name) and p.end[1].func.value.id == 'self' and p.end[1].func.attr.startswith(('_decode', '_spare')) and depth < 3:
            callee = cls_attrs.get(p.end[1].func.attr)
            if isinstance(callee, FuncV):
                for c in _consumption(w, callee, cls_attrs, depth + 1):
                    out.add(c if isinstance(c, str) else c + n)
                continue
        out.add('leb' if leb else n)
    return out


def check_ring(ctx, w):
    cv = w.interp.class_value(w.model.cls('EHABIBytecodeDecoder'))
    ring = cv.attrs.get('ring')
    if not isinstance(ring, (tuple, list)) or not ring:
        raise AnalysisError('G-RING', DEC + ':EHABIBytecodeDecoder.ring', 'ring not evaluable')
    rows = []
    for r in ring:
        if not isinstance(r, Node):
            raise AnalysisError('G-RING', DEC + ':EHABIBytecodeDecoder.ring', 'row not evaluable')
        kw = dict(r.kwargs)
        for i, a in enumerate(r.args):
            kw[('mask', 'value', 'handler')[i]] = a
        if not (isinstance(kw.get('mask'), int) and isinstance(kw.get('value'), int) and isinstance(kw.get('handler'), FuncV)):
            raise AnalysisError('G-RING', DEC + ':EHABIBytecodeDecoder.ring', 'row fields not evaluable: %r' % (kw,))
        rows.append((kw['mask'], kw['value'], kw['handler']))
    construct = DEC + ':EHABIBytecodeDecoder.ring'
    cons_cache = {}
    for b in range(256):
        sel = None
        for mask, value, h in rows:
            if (b & mask) == value:
                sel = h
                break
        ctx.ob('G-RING', construct, 'byte %#04x selects a row (totality)' % b, sel is not None,
               msg='no ring row matches this byte: _decode never advances (endless loop)')
        if sel is None:
            continue
        want_h, want_c = table4(b)
        name = sel.name
        ok = name == want_h or (want_h == 'spare' and name in SPARE_HANDLERS) or (want_h in SPARE_HANDLERS and name in SPARE_HANDLERS)
        ctx.ob('G-RING', construct, 'byte %#04x -> %s' % (b, want_h), ok, got=name, expected=want_h,
               msg='first matching ring row selects another handler class than IHI 0038 Table 4', sample='%#04x -> %s' % (b, want_h))
        if name not in cons_cache:
            cons_cache[name] = _consumption(w, sel, cv.attrs)
        ctx.ob('G-RING', construct, 'byte %#04x consumption %s' % (b, want_c), cons_cache[name] == {want_c}, got=sorted(map(str, cons_cache[name])), expected=want_c,
               msg='handler does not advance the index by the instruction length on every path')
    # decode loop: first match, handler called, slice recorded
    f = w.model.func(DEC, 'EHABIBytecodeDecoder._decode')
    src = U(f.node)
    ctx.ob('G-RING', f.construct, 'first-match dispatch over the ring on the current byte',
           'for mask, value, handler in self.ring:' in src.replace('(mask, value, handler)', 'mask, value, handler') and 'if self._bytecode_array[self._index] & mask == value:' in src and 'break' in src and
           'while self._index < len(self._bytecode_array):' in src)
    ctx.ob('G-RING', f.construct, 'mnemonic item carries exactly the consumed bytes', 'MnemonicItem(self._bytecode_array[start_idx:end_idx], mnemonic)' in src and
           'start_idx = self._index' in src and 'end_idx = self._index' in src)
    # ULEB operand loop of 0xb2: do { push byte } while (byte & 0x80)
    g = w.model.func(DEC, 'EHABIBytecodeDecoder._decode_10110010_uleb128')
    genv = expr.FEnv(g.node, inline=False)
    whiles = [n for n in ast.walk(g.node) if isinstance(n, ast.While)]
    ok = False
    why = None
    if len(whiles) == 1:
        lp = whiles[0]
        body = [U(s) for s in lp.body]
        # accepted shape: while True: b = arr[idx]; idx += 1; buf.append(b); if b & 0x80 == 0: break
        if isinstance(lp.test, ast.Constant) and lp.test.value is True:
            reads = [s for s in lp.body if isinstance(s, ast.Assign) and U(s.value) == 'self._bytecode_array[self._index]']
            incs = [s for s in lp.body if isinstance(s, ast.AugAssign) and U(s) == 'self._index += 1']
            brk = [s for s in lp.body if isinstance(s, ast.If) and any(isinstance(x, ast.Break) for x in s.body)]
            if len(reads) == 1 and len(incs) == 1 and len(brk) == 1:
                bname = U(reads[0].targets[0])
                t = expr.cond_str(brk[0].test, genv)
                accepted = set([expr.spec_cond('%s & 0x80 == 0' % bname), expr.spec_cond('not %s & 0x80' % bname), expr.spec_cond('%s < 0x80' % bname)])
                ok = t in accepted and lp.body.index(reads[0]) < lp.body.index(brk[0])
                why = t
        else:
            why = 'loop tests %s' % U(lp.test)
    ctx.ob('G-RING', g.construct, 'ULEB operand: continue while the byte just consumed has bit 7 set', ok, got=why,
           msg='the operand ends with the first byte whose bit 7 is clear; testing the NEXT byte (or the opposite polarity) mis-sizes the instruction',
           line=g.node.lineno)
    tr = expr.assign_trace(g.node, genv)
    poly = _uleb_value_poly(g.node)
    want_poly = expr.spec_nf('(B0 & 127) + 128 * (B1 & 127) + 16384 * (B2 & 127)')
    ctx.ob('G-RING', g.construct, 'value: 7 bits per byte, least significant group first', poly == want_poly, got=poly, expected=want_poly,
           msg='the operand value over a three-byte buffer is not B0&127 + (B1&127)<<7 + (B2&127)<<14')
    rets = [r.value for r in expr.returns_of(g.node)]
    ok_r = len(rets) == 1 and any(expr.nfs(x, expr.FEnv()) == expr.spec_nf('516 + (value << 2)') for x in ast.walk(rets[0]) if isinstance(x, ast.BinOp)) and \
        ('vsp = vsp + ' in U(rets[0]))
    ctx.ob('G-RING', g.construct, 'vsp += 0x204 + (value << 2)', ok_r, got=[U(r) for r in rets])


def _uleb_value_poly(fnode):
    """The operand value as a polynomial over a symbolic three-byte buffer [B0, B1, B2], from either spelling of the fold:
    an accumulator loop over the buffer (forwards or reversed) or a sum over enumerate(buffer).  Shifts by constants are
    multiplications in the normal form, so both spellings of the same fold give the same polynomial."""
    import copy as _copy
    names = ['B0', 'B1', 'B2']

    class Sub(ast.NodeTransformer):
        def __init__(s, mp):
            s.mp = mp

        def visit_Name(s, n):
            if isinstance(n.ctx, ast.Load) and n.id in s.mp:
                return _copy.deepcopy(s.mp[n.id])
            return n
    for st in ast.walk(fnode):
        # value = sum(<elt> for i, b in enumerate(buffer))
        if isinstance(st, ast.Assign) and U(st.targets[0]) == 'value' and isinstance(st.value, ast.Call) and U(st.value.func) == 'sum' and st.value.args and \
                isinstance(st.value.args[0], (ast.GeneratorExp, ast.ListComp)) and len(st.value.args[0].generators) == 1:
            gen = st.value.args[0].generators[0]
            if isinstance(gen.iter, ast.Call) and U(gen.iter.func) == 'enumerate' and isinstance(gen.target, ast.Tuple) and len(gen.target.elts) == 2:
                iv, bv = gen.target.elts[0].id, gen.target.elts[1].id
                total = None
                for i, nm in enumerate(names):
                    e = Sub({iv: ast.Constant(value=i), bv: ast.Name(id=nm, ctx=ast.Load())}).visit(_copy.deepcopy(st.value.args[0].elt))
                    total = e if total is None else ast.BinOp(left=total, op=ast.Add(), right=e)
                ast.fix_missing_locations(total)
                return expr.nfs(_fold_consts(total), expr.FEnv())
    for lp in ast.walk(fnode):
        if isinstance(lp, ast.For) and isinstance(lp.target, ast.Name) and any(isinstance(x, ast.Name) and x.id == 'value' and isinstance(x.ctx, ast.Store) for x in ast.walk(lp)):
            it = U(lp.iter)
            order = list(reversed(names)) if ('reversed(' in it or '[::-1]' in it) else names
            cur = ast.Constant(value=0)
            for nm in order:
                for b in lp.body:
                    if isinstance(b, ast.Assign) and U(b.targets[0]) == 'value':
                        cur = Sub({'value': cur, lp.target.id: ast.Name(id=nm, ctx=ast.Load())}).visit(_copy.deepcopy(b.value))
                    elif isinstance(b, ast.AugAssign) and U(b.target) == 'value':
                        cur = ast.BinOp(left=cur, op=b.op, right=Sub({'value': cur, lp.target.id: ast.Name(id=nm, ctx=ast.Load())}).visit(_copy.deepcopy(b.value)))
            ast.fix_missing_locations(cur)
            return expr.nfs(_fold_consts(cur), expr.FEnv())
    return None


def _fold_consts(e):
    """7 * 2 -> 14 inside shift amounts, so that the normal form sees a constant shift"""
    class F(ast.NodeTransformer):
        def visit_BinOp(s, n):
            s.generic_visit(n)
            if isinstance(n.left, ast.Constant) and isinstance(n.right, ast.Constant) and isinstance(n.left.value, int) and isinstance(n.right.value, int):
                if isinstance(n.op, ast.Mult):
                    return ast.copy_location(ast.Constant(value=n.left.value * n.right.value), n)
                if isinstance(n.op, ast.Add):
                    return ast.copy_location(ast.Constant(value=n.left.value + n.right.value), n)
            return n
    return F().visit(e)


MUTANTS = [
    ('regs-vfp-base', DEC, "        start = 16 + ((op1 & 0xf0) >> 4)", "        start = 8 + ((op1 & 0xf0) >> 4)", 'G-REGS'),
    ('regs-range-count', DEC, "        return ((1 << (count + 1)) - 1) << start", "        return ((1 << count) - 1) << start", 'G-REGS'),
    ('regs-r14-dropped', DEC, "self._calculate_range(4, opcode & 0x07) | (1 << 14))", "self._calculate_range(4, opcode & 0x07))", 'G-REGS'),
    ('ring-mask', DEC, "_DECODE_RECIPE_TYPE(mask=0xf8, value=0xa8, handler=_decode_10101nnn),", "_DECODE_RECIPE_TYPE(mask=0xf0, value=0xa8, handler=_decode_10101nnn),", 'G-RING'),
    ('ring-value', DEC, "_DECODE_RECIPE_TYPE(mask=0xff, value=0xc8, handler=_decode_11001000_sssscccc),", "_DECODE_RECIPE_TYPE(mask=0xff, value=0xca, handler=_decode_11001000_sssscccc),", 'G-RING'),
    ('ring-order', DEC, "        _DECODE_RECIPE_TYPE(mask=0xff, value=0x9d, handler=_decode_10011101),\n        _DECODE_RECIPE_TYPE(mask=0xff, value=0x9f, handler=_decode_10011111),\n        _DECODE_RECIPE_TYPE(mask=0xf0, value=0x90, handler=_decode_1001nnnn),",
     "        _DECODE_RECIPE_TYPE(mask=0xf0, value=0x90, handler=_decode_1001nnnn),\n        _DECODE_RECIPE_TYPE(mask=0xff, value=0x9d, handler=_decode_10011101),\n        _DECODE_RECIPE_TYPE(mask=0xff, value=0x9f, handler=_decode_10011111),", 'G-RING'),
    ('index-advance-dropped', DEC, "    def _decode_10110000(self):\n        # SW.startLine() << format(\"0x%02X      ; finish\\n\", Opcode);\n        self._index += 1\n", "    def _decode_10110000(self):\n        # SW.startLine() << format(\"0x%02X      ; finish\\n\", Opcode);\n", 'G-RING'),
    ('last-row-dropped', DEC, "        _DECODE_RECIPE_TYPE(mask=0xc0, value=0xc0, handler=_decode_11xxxyyy),\n", "", 'G-RING'),
    ('ntbs-dropped', SEC, "elif self.tag in ('TAG_CPU_RAW_NAME', 'TAG_CPU_NAME', 'TAG_CONFORMANCE'):", "elif self.tag in ('TAG_CPU_RAW_NAME', 'TAG_CPU_NAME'):", 'G-SIG'),
    ('plus4-dropped', EH, "self.section_offset() + n * EHABI_INDEX_ENTRY_SIZE + 4)", "self.section_offset() + n * EHABI_INDEX_ENTRY_SIZE)", 'I-STRIDE'),
    ('sign-bit', EH, "    if location & 0x40000000:", "    if location & 0x04000000:", 'L-SEXT'),
    ('walk-first-start', SEC, "            subsec_offset += subsec['length']", "            subsec_offset = self.subsec_start + subsec['length']", 'I-REL'),
    ('compact-mask', EH, "                if word0 & 0x70000000 != 0:", "                if word0 & 0x7f000000 != 0:", 'E-ii'),
    ('per-index', EH, "                elif per_index == 1 or per_index == 2:", "                elif per_index == 1:", 'E-ii'),
    ('extra-bytes-order', EH, "                        opcode.append((r >> 24) & 0xFF)\n                        opcode.append((r >> 16) & 0xFF)", "                        opcode.append((r >> 16) & 0xFF)\n                        opcode.append((r >> 24) & 0xFF)", 'E-ii'),
    ('riscv-arch', SEC, "        elif self.tag == 'TAG_ARCH':", "        elif self.tag == 'TAG_STACK_ALIGN':", 'G-SIG'),
    ('attr-gen-tell', SEC, "        while offset != end:\n            self.stream.seek(offset)\n            attribute = self.attribute(self.structs, self.stream)\n            offset = self.stream.tell()\n            yield attribute", "        self.stream.seek(offset)\n        while self.stream.tell() != end:\n            yield self.attribute(self.structs, self.stream)", None),
    ('uleb-next-byte', DEC, "            if b & 0x80 == 0:\n                break", "            if self._bytecode_array[self._index] & 0x80 == 0:\n                break", 'G-RING'),
    ('eh-be', 'ehabi/structs.py', "            self.EHABI_uint32 = UBInt32", "            self.EHABI_uint32 = ULInt32", 'I-STRIDE'),
    ('compat-order', SEC, "            self.value = struct_parse(structs.Elf_uleb128('value'), stream)\n            self.extra = struct_parse(structs.Elf_ntbs('vendor_name',", "            self.value = struct_parse(structs.Elf_uleb128('value'), stream)\n            self.extra = struct_parse(structs.Elf_uleb128('vendor_name',", 'G-SIG'),
]


# IHI 0038B Table 4 (and LLVM ARMEHABIPrinter): handler -> (printer, prefix, register set as a function of the operand byte)
REGLISTS = {
    '_decode_10100nnn': ('_printGPR', None, lambda b: set(range(4, 4 + (b & 7) + 1))),
    '_decode_10101nnn': ('_printGPR', None, lambda b: set(range(4, 4 + (b & 7) + 1)) | {14}),
    '_decode_10111nnn': ('_print_registers', 'd', lambda b: set(range(8, 8 + (b & 7) + 1))),
    '_decode_11010nnn': ('_print_registers', 'd', lambda b: set(range(8, 8 + (b & 7) + 1))),
    '_decode_11000nnn': ('_print_registers', 'wR', lambda b: set(range(10, 10 + (b & 7) + 1))),
    '_decode_11000110_sssscccc': ('_print_registers', 'wR', lambda b: set(range(b >> 4, (b >> 4) + (b & 15) + 1))),
    '_decode_11001000_sssscccc': ('_print_registers', 'd', lambda b: set(range(16 + (b >> 4), 16 + (b >> 4) + (b & 15) + 1))),
    '_decode_11001001_sssscccc': ('_print_registers', 'd', lambda b: set(range(b >> 4, (b >> 4) + (b & 15) + 1))),
    '_decode_10110011_sssscccc': ('_print_registers', 'd', lambda b: set(range(b >> 4, (b >> 4) + (b & 15) + 1))),
}
_FOLDABLE = (ast.Expression, ast.BinOp, ast.UnaryOp, ast.Constant, ast.Name, ast.Load, ast.LShift, ast.RShift, ast.BitAnd, ast.BitOr, ast.BitXor, ast.Add, ast.Sub,
             ast.Mult, ast.Invert, ast.USub, ast.FloorDiv, ast.Mod)


def _mask_expr(w, cls_q, name, depth=0):
    """(printer name, prefix text, mask expression AST over the operand byte `B`) of a register-list handler: the argument of the printer
    call in its single return, locals replaced by what the path assigned, the operand read written as B, _calculate_range written out
    from the tree's own definition; a handler that only delegates to another is followed."""
    import copy
    f = w.model.func(DEC, cls_q + '.' + name)
    ps = [p for p in paths.func_paths(f.node) if p.end[0] == 'return']
    if len(ps) != 1 or ps[0].end[1] is None:
        return None
    ret = ps[0].end[1]
    if isinstance(ret, ast.Call) and isinstance(ret.func, ast.Attribute) and ret.func.attr.startswith('_decode_') and not ret.args and depth < 3:
        return _mask_expr(w, cls_q, ret.func.attr, depth + 1)
    store = expr.path_store(ps[0])
    e = expr._StoreSubst(store).visit(copy.deepcopy(ret))
    calls = [c for c in ast.walk(e) if isinstance(c, ast.Call) and isinstance(c.func, ast.Attribute) and c.func.attr in ('_print_registers', '_printGPR')]
    if len(calls) != 1 or not calls[0].args:
        return None
    prefix = U(calls[0].args[1]) if len(calls[0].args) > 1 else None
    cr = w.model.func(DEC, cls_q + '._calculate_range')
    crr = [r.value for r in expr.returns_of(cr.node)]
    crp = [a.arg for a in cr.node.args.args if a.arg != 'self']

    class T(ast.NodeTransformer):
        def visit_Subscript(s, n):
            if U(n) == 'self._bytecode_array[self._index]':
                return ast.Name(id='B', ctx=ast.Load())
            return s.generic_visit(n)

        def visit_Call(s, n):
            s.generic_visit(n)
            if isinstance(n.func, ast.Attribute) and n.func.attr == '_calculate_range' and len(crr) == 1 and len(n.args) == len(crp) and not n.keywords:
                return expr._StoreSubst(dict(zip(crp, n.args))).visit(copy.deepcopy(crr[0]))
            return n
    m = T().visit(copy.deepcopy(calls[0].args[0]))
    return calls[0].func.attr, prefix, m


def check_reglists(ctx, w):
    cls_q = 'EHABIBytecodeDecoder'
    for name, (printer, prefix, regs) in sorted(REGLISTS.items()):
        construct = '%s:%s.%s' % (DEC, cls_q, name)
        r = _mask_expr(w, cls_q, name)
        if r is None:
            raise AnalysisError('G-REGS', construct, 'register mask expression not found')
        gp, gprefix, m = r
        bad_nodes = [type(x).__name__ for x in ast.walk(m) if not isinstance(x, _FOLDABLE) or (isinstance(x, ast.Name) and x.id != 'B')]
        if bad_nodes:
            raise AnalysisError('G-REGS', construct, 'register mask is not an arithmetic expression of the operand byte: %s' % U(m))
        code = compile(ast.fix_missing_locations(ast.Expression(body=m)), '<mask>', 'eval')      # constant folding over the 256 operand values
        wrong = []
        for b in range(256):
            v = eval(code, {'__builtins__': {}}, {'B': b})
            got = set(i for i in range(32) if v & (1 << i))
            want = set(i for i in regs(b) if i < 32)
            if got != want:
                wrong.append((hex(b), sorted(got), sorted(want)))
        ctx.ob('G-REGS', construct, 'registers named for every operand byte', not wrong and gp == printer and (prefix is None or gprefix == repr(prefix)),
               got=wrong[:2] or (gp, gprefix), expected='IHI 0038 Table 4', sample='%s: %s %s over 256 operand values' % (name, printer, prefix or 'core'),
               msg='for some operand byte the disassembly names other registers than the EHABI table assigns to this byte-code')
