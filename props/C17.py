"""C17 -- symbolic names and numeric codes follow the ELF and DWARF registries.

Rule R-REG (exhaustive): every (name, value) of every table the constant evaluator (engine B)
folds out of elf/enums.py, elf/constants.py, dwarf/enums.py, dwarf/constants.py,
dwarf/dwarf_expr.py equals the value the vendored registries give that name.
Rule R-INV: derived tables are exact inverses/filters of their sources.
Rule R-SUP: machine-specific tables extend the base table.
"""
from sa.world import get_world
from sa.absint import Unknown, ClassV
from sa import registry
from sa.report import AnalysisError

ELF_MODS = ('elf/enums.py', 'elf/constants.py')
DWARF_MODS = ('dwarf/enums.py', 'dwarf/constants.py')

# names whose value is a per-release *count*, not a code found in files (glibc changes them
# between releases): listed, never failed
def volatile(name):
    return name.endswith('NUM')


def collect_tables(w, ctx):
    """-> list of (table_label, construct, {name: int})"""
    out = []
    for mod in ELF_MODS + DWARF_MODS + ('dwarf/dwarf_expr.py',):
        env = w.interp.module_env(mod)
        for e in w.interp.mod_errors.get(w.model.relpath(mod), []):
            ctx.error('B-EVAL', mod, e.why)
        flat = {}
        for k, v in sorted(env.vars.items()):
            if isinstance(v, Unknown) and (k.startswith('ENUM') or k.startswith('DW_')):
                ctx.error('B-EVAL', '%s:%s' % (mod, k), 'table evaluates to Unknown (%s)' % v.why)
            if isinstance(v, dict) and (k.startswith('ENUM') or k in ('DW_EH_encoding_flags', 'DW_OP_name2opcode')):
                if k == 'ENUM_D_TAG':
                    pass  # union of the others; still checked (same names)
                tab = {}
                for n, val in v.items():
                    if isinstance(n, str) and isinstance(val, int) and not isinstance(val, bool):
                        tab[n] = val
                    elif isinstance(val, dict):
                        for n2, v2 in val.items():
                            if isinstance(n2, str) and isinstance(v2, int):
                                tab.setdefault(n2, v2)
                    elif isinstance(n, str) and isinstance(val, Unknown):
                        ctx.error('B-EVAL', '%s:%s[%s]' % (mod, k, n), 'value Unknown')
                out.append((k, '%s:%s' % (mod, k), tab))
            elif isinstance(v, ClassV) and mod == 'elf/constants.py':
                tab = dict((n, val) for n, val in v.attrs.items()
                           if isinstance(val, int) and not isinstance(val, bool) and not n.startswith('_'))
                out.append((k, '%s:%s' % (mod, k), tab))
            elif mod == 'dwarf/constants.py' and isinstance(v, int) and not isinstance(v, bool) and k.startswith('DW_'):
                flat[k] = v
        if flat:
            out.append(('constants', '%s:<module constants>' % mod, flat))
    return out


def reg_lookup(name, dwarf):
    """-> list of (registry, value) defining the name"""
    g = registry.glibc()
    l = registry.llvm()
    res = []
    if dwarf:
        if name in l.dwarf:
            res.append(('llvm/Dwarf', l.dwarf[name]))
    else:
        if name in g.defines:
            res.append(('glibc/elf.h', g.defines[name]))
        if name in l.elf:
            res.append(('llvm/ELF', l.elf[name]))
    return res


def run(ctx):
    w = get_world(ctx)
    ctx.explanation.append(
        'C17: constant folding of the table modules (engine B) and exhaustive comparison of every '
        '(name,value) with the vendored glibc elf.h and LLVM BinaryFormat registries (rule R-REG); '
        'derived tables are exact inverses (R-INV); machine tables extend base tables (R-SUP).')
    ctx.assumptions += ['glibc 2.36 elf.h and LLVM 14 BinaryFormat headers are the governing registries',
                        'names no registry defines are unverifiable: listed, not failed',
                        'names on which the two registries disagree accept either value']
    ctx.rule('R-REG', 'table value equals registry value for every registry-defined name')
    ctx.rule('R-INV', 'derived table is the exact inverse/filter of its source')
    ctx.rule('R-SUP', 'machine-specific table contains the base table')
    tables = ctx.guard('R-REG', 'tables', collect_tables, w, ctx)
    if tables is None:
        return
    nunver = nambig = nvol = 0
    ntab = 0
    for label, construct, tab in tables:
        ntab += 1
        dwarf = construct.startswith('dwarf/')
        for name in sorted(tab):
            val = tab[name]
            regs = reg_lookup(name, dwarf)
            if not regs:
                nunver += 1
                continue
            if volatile(name):
                nvol += 1
                ctx.note('volatile count name %s=%#x (registry %s)' % (name, val, regs))
                continue
            vals = set(v for _, v in regs)
            if len(vals) > 1:
                nambig += 1
                ctx.note('registries disagree on %s: %s' % (name, regs))
            ok = val in vals
            ctx.ob('R-REG', construct, name, ok,
                   msg='value differs from the registry', got=hex(val),
                   expected=' / '.join('%s=%#x' % (r, v) for r, v in regs),
                   sample='%s[%s] = %#x == %s' % (label, name, val, '/'.join('%s:%#x' % rv for rv in regs)))
    ctx.analysed['tables'] = ntab
    ctx.analysed['unverifiable_names'] = nunver
    ctx.analysed['ambiguous_names'] = nambig
    ctx.analysed['volatile_names'] = nvol
    ctx.floor('R-REG', 1500)

    # --- R-INV --------------------------------------------------------------------------
    def inv_forms():
        fwd = w.table('dwarf/enums.py', 'ENUM_DW_FORM')
        inv = w.table('dwarf/enums.py', 'DW_FORM_raw2name')
        for n, v in fwd.items():
            if isinstance(v, int):
                ctx.ob('R-INV', 'dwarf/enums.py:DW_FORM_raw2name', n, inv.get(v) == n,
                       msg='reverse form map does not map the code back to its name', got=inv.get(v), expected=n)
        for v, n in inv.items():
            if isinstance(v, int):
                ctx.ob('R-INV', 'dwarf/enums.py:DW_FORM_raw2name', 'code %#x' % v, fwd.get(n) == v,
                       msg='reverse form map has an entry the form table lacks', got=n, expected=None)
    ctx.guard('R-INV', 'DW_FORM_raw2name', inv_forms)

    def inv_ops():
        fwd = w.table('dwarf/dwarf_expr.py', 'DW_OP_name2opcode')
        inv = w.table('dwarf/dwarf_expr.py', 'DW_OP_opcode2name')
        byval = {}
        for n, v in fwd.items():
            byval.setdefault(v, []).append(n)
        for v, ns in sorted(byval.items()):
            ctx.ob('R-INV', 'dwarf/dwarf_expr.py:DW_OP_opcode2name', 'opcode %#x' % v, inv.get(v) in ns,
                   msg='opcode->name map does not return a name of this opcode', got=inv.get(v), expected=ns)
            markers = [n for n in ns if n in ('DW_OP_lo_user', 'DW_OP_hi_user')]
            real = [n for n in ns if n not in markers]
            ctx.ob('R-INV', 'dwarf/dwarf_expr.py:DW_OP_name2opcode', 'one-to-one %#x' % v, len(real) <= 1,
                   msg='two operation names share one opcode', got=real, expected='at most one')
        for v in inv:
            ctx.ob('R-INV', 'dwarf/dwarf_expr.py:DW_OP_opcode2name', 'rev %r' % (v,), v in byval,
                   msg='opcode->name map has an opcode the name table lacks')
    ctx.guard('R-INV', 'DW_OP_opcode2name', inv_ops)

    def inv_cfa():
        consts = w.interp.module_env('dwarf/constants.py').vars
        m = w.table('dwarf/callframe.py', '_OPCODE_NAME_MAP')
        cfa = dict((k, v) for k, v in consts.items() if k.startswith('DW_CFA') and isinstance(v, int))
        byval = {}
        for n, v in cfa.items():
            byval.setdefault(v, []).append(n)
        for v, ns in sorted(byval.items()):
            # a code is reported under its *registry* name: where several constants share the value (a mask or helper next to the
            # opcode), the map must keep a name the registry defines, if there is one
            regd = [n for n in ns if reg_lookup(n, True)]
            ctx.ob('R-INV', 'dwarf/callframe.py:_OPCODE_NAME_MAP', 'opcode %#x' % v, m.get(v) in (regd or ns),
                   msg='CFA opcode name map misses an opcode or reports it under a name the registry does not define', got=m.get(v), expected=regd or ns)
        for v, n in m.items():
            ctx.ob('R-INV', 'dwarf/callframe.py:_OPCODE_NAME_MAP', 'rev %r' % (v,), cfa.get(n) == v,
                   msg='CFA opcode name map entry is not a DW_CFA constant', got=n)
    ctx.guard('R-INV', '_OPCODE_NAME_MAP', inv_cfa)
    ctx.floor('R-INV', 250)

    # --- R-SUP --------------------------------------------------------------------------
    def sup():
        env = w.interp.module_env('elf/enums.py').vars
        for fam, base in (('ENUM_SH_TYPE_', 'ENUM_SH_TYPE_BASE'), ('ENUM_P_TYPE_', 'ENUM_P_TYPE_BASE')):
            b = env.get(base)
            if not isinstance(b, dict):
                raise AnalysisError('R-SUP', 'elf/enums.py:' + base, 'base table not found')
            for k, v in sorted(env.items()):
                if k.startswith(fam) and k != base and isinstance(v, dict):
                    missing = [n for n in b if n not in v or v[n] != b[n]]
                    ctx.ob('R-SUP', 'elf/enums.py:' + k, 'contains ' + base, not missing,
                           msg='machine table lacks or changes base entries', got=missing[:5], expected='superset')
        common = env.get('ENUM_D_TAG_COMMON')
        full = env.get('ENUM_D_TAG')
        if isinstance(common, dict) and isinstance(full, dict):
            missing = [n for n in common if full.get(n) != common[n]]
            ctx.ob('R-SUP', 'elf/enums.py:ENUM_D_TAG', 'contains ENUM_D_TAG_COMMON', not missing, got=missing[:5])
    ctx.guard('R-SUP', 'machine tables', sup)
    ctx.floor('R-SUP', 8)
    # --- table selection: a registry-correct table is only as good as the rule that picks it for a file (shared with C09) ----
    from props import C09
    ctx.rule('L-ENUM', 'the dynamic-tag table a file gets is common + processor tags of its machine + OS tags of its OS ABI')
    ctx.guard('L-ENUM', 'd_tag', C09.check_tag_tables, ctx, w, ctx.tier == 'thorough')
    from props import C01
    ctx.guard('L-ENUM', 'sh_type/p_type', C01.check_enums, ctx, w, ctx.tier == 'thorough')
    ctx.floor('L-ENUM', 40)


EN, CO, DE, DC, DX = 'elf/enums.py', 'elf/constants.py', 'dwarf/enums.py', 'dwarf/constants.py', 'dwarf/dwarf_expr.py'
MUTANTS = [
    ('em-x86-64', EN, "    EM_X86_64        = 62,", "    EM_X86_64        = 63,", 'R-REG'),
    ('osabi-freebsd', EN, "    ELFOSABI_FREEBSD=9,", "    ELFOSABI_FREEBSD=8,", 'R-REG'),
    ('sht-gnu-hash', EN, "    SHT_GNU_HASH=0x6ffffff6,", "    SHT_GNU_HASH=0x6ffffff5,", 'R-REG'),
    ('pt-gnu-relro', EN, "    PT_GNU_RELRO=0x6474e552,", "    PT_GNU_RELRO=0x6474e553,", 'R-REG'),
    ('dt-gnu-hash', EN, "    DT_GNU_HASH=0x6ffffef5,", "    DT_GNU_HASH=0x6ffffef4,", 'R-REG'),
    ('r-x86-64-plt32', EN, "    R_X86_64_PLT32=4,", "    R_X86_64_PLT32=5,", 'R-REG'),
    ('stv-protected', EN, "    STV_PROTECTED=3,", "    STV_PROTECTED=4,", 'R-REG'),
    ('sht-arm-attributes', EN, "            SHT_ARM_ATTRIBUTES=0x70000003,", "            SHT_ARM_ATTRIBUTES=0x70000005,", 'R-REG'),
    ('arm-table-not-merged', EN, "ENUM_SH_TYPE_ARM = merge_dicts(\n        ENUM_SH_TYPE_BASE,\n        dict(", "ENUM_SH_TYPE_ARM = merge_dicts(\n        dict(", 'R-SUP'),
    ('shn-xindex', CO, "    SHN_XINDEX=0xffff", "    SHN_XINDEX=0xfffe", 'R-REG'),
    ('shf-compressed', CO, "    SHF_COMPRESSED=0x800", "    SHF_COMPRESSED=0x400", 'R-REG'),
    ('tag-subprogram', DE, "    DW_TAG_subprogram                  = 0x2e,", "    DW_TAG_subprogram                  = 0x2f,", 'R-REG'),
    ('at-call-value', DE, "    DW_AT_call_value                = 0x7e,", "    DW_AT_call_value                = 0x7f,", 'R-REG'),
    ('form-line-strp', DE, "    DW_FORM_line_strp           = 0x1f,", "    DW_FORM_line_strp           = 0x1e,", 'R-'),
    ('lnct-md5', DE, "    DW_LNCT_MD5              = 0x5,", "    DW_LNCT_MD5              = 0x6,", 'R-REG'),
    ('ut-skeleton', DE, "    DW_UT_skeleton      = 0x04,", "    DW_UT_skeleton      = 0x05,", 'R-REG'),
    ('rle-offset-pair', DE, "    DW_RLE_offset_pair   = 0x04,", "    DW_RLE_offset_pair   = 0x05,", 'R-REG'),
    ('raw2name-not-inverse', DE, "DW_FORM_raw2name = dict((v, k) for k, v in ENUM_DW_FORM.items())", "DW_FORM_raw2name = dict((v + 1, k) for k, v in ENUM_DW_FORM.items())", 'R-INV'),
    ('lang-rust', DC, "DW_LANG_Rust = 0x001c", "DW_LANG_Rust = 0x001d", 'R-REG'),
    ('ate-utf', DC, "DW_ATE_UTF = 0x10", "DW_ATE_UTF = 0x11", 'R-REG'),
    ('cfa-val-expression', DC, "DW_CFA_val_expression = 0x16", "DW_CFA_val_expression = 0x17", 'R-REG'),
    ('cfa-offset-bits', DC, "DW_CFA_offset = 0b10000000", "DW_CFA_offset = 0b01000000", 'R-'),
    ('op-call-frame-cfa', DX, "    DW_OP_call_frame_cfa=0x9c,", "    DW_OP_call_frame_cfa=0x9d,", 'R-REG'),
    ('op-entry-value', DX, "    DW_OP_entry_value=0xa3,", "    DW_OP_entry_value=0xa4,", 'R-REG'),
    ('cfa-mask-shadows-opcode', DC, "DW_CFA_restore = 0b11000000", "DW_CFA_restore = 0b11000000\nDW_CFA_zz_primary_mask = 0xc0", 'R-INV'),
    ('dyn-solaris-elif', 'elf/structs.py', "        if self.e_ident_osabi == 'ELFOSABI_SOLARIS':\n            d_tag_dict.update(ENUM_D_TAG_SOLARIS)",
     "        elif self.e_ident_osabi == 'ELFOSABI_SOLARIS':\n            d_tag_dict.update(ENUM_D_TAG_SOLARIS)", 'L-ENUM'),
    ('opcode2name-filtered', DX, "DW_OP_opcode2name = {v: k for k, v in DW_OP_name2opcode.items()}", "DW_OP_opcode2name = {v: k for k, v in DW_OP_name2opcode.items() if v < 0xe0}", 'R-INV'),
]
