"""C04 -- debugging-information entries are decoded into exactly the encoded tree.

Decides (DESIGN.md §3 C04): unit header / abbreviation layouts for every version x unit type x format x byte order;
initial-length decision table; the form -> parser table (exhaustive, signatures via the layout IR); _parse_DIE
structure (seek, code, null entry, attribute order/offsets, implicit_const, indirect, size = tell - offset) with
H-CUR; value translation table; child-iteration cursor cases and the three unit-relative form sets; reference
resolution; unit header wiring; CompileUnit/TypeUnit sibling agreement.
"""
import ast
import copy
from sa.canon import U
from sa.world import get_world
from sa import dwconf, layout, expr, paths, streams, dispatch, literals, hrules, owner
from sa.absint import FuncV, Unknown, Node
from sa.report import AnalysisError
from spec import dwarf as D

DIE = 'dwarf/die.py'
CU = 'dwarf/compileunit.py'
TU = 'dwarf/typeunit.py'
DI = 'dwarf/dwarfinfo.py'
ST = 'dwarf/structs.py'

REL_FORMS = frozenset(['DW_FORM_ref1', 'DW_FORM_ref2', 'DW_FORM_ref4', 'DW_FORM_ref8', 'DW_FORM_ref', 'DW_FORM_ref_udata'])
INDEX_FORMS = {
    'addrx': frozenset(['DW_FORM_addrx', 'DW_FORM_addrx1', 'DW_FORM_addrx2', 'DW_FORM_addrx3', 'DW_FORM_addrx4']),
    'strx': frozenset(['DW_FORM_strx', 'DW_FORM_strx1', 'DW_FORM_strx2', 'DW_FORM_strx3', 'DW_FORM_strx4']),
    'loclistx': frozenset(['DW_FORM_loclistx']), 'rnglistx': frozenset(['DW_FORM_rnglistx']),
}


def run(ctx):
    w = get_world(ctx)
    ctx.explanation.append(
        'C04: CU/TU/abbreviation layouts interpreted for 32 configurations x 9 header cases vs DWARF 5 §7.5.1/§7.5.3 rows '
        '(L-CONF); initial-length adapter boundary table (E-ii); form table: every ENUM_DW_FORM name has a parser whose IR '
        'equals the §7.5.6 row (G-EXH/G-SIG); _parse_DIE statement structure and stream-cursor typestate (W-DIE, H-CUR); value '
        'translation dispatch (G-TRANS) and index-form widths (I-WIDTH); child-iteration cursor cases in normal form (E-i); '
        'unit-relative form sets identical in the three modules (sibling); reference resolution formulas; unit header '
        'wiring; CompileUnit/TypeUnit method agreement (sibling).')
    ctx.assumptions += ['values of strings/addresses fetched from other sections are runtime quantities',
                        'round trip of arbitrary generated trees is not decided']
    for r, d in (('L-CONF', 'header layout equals the DWARF row per case'), ('E-ii', 'initial-length decision table'),
                 ('G-EXH', 'every form name has a parser'), ('G-SIG', 'form parser equals the §7.5.6 row'),
                 ('W-DIE', '_parse_DIE structure'), ('G-TRANS', 'value translation table'), ('I-WIDTH', 'format-selected widths are 4/8'),
                 ('E-i', 'cursor/extent/reference formulas'), ('SIB', 'sibling implementations agree'),
                 ('W-UNIT', 'unit header wiring'), ('H-CUR', 'cursor discipline'), ('G-LIT', 'enum literals defined'),
                 ('R-INV', 'reverse form map'), ('G-OWNER', 'size-dependent facts are read from the unit that owns the data')):
        ctx.rule(r, d)
    ctx.guard('G-OWNER', 'owners', owner.gowner, ctx, w, ('dwarf/die.py', 'dwarf/dwarfinfo.py', 'dwarf/dwarf_util.py'))
    ctx.floor('G-OWNER', 9)
    configs = dwconf.CONFIGS_QUICK
    ctx.guard('L-CONF', 'Dwarf_CU_header', dwconf.check_struct, ctx, w, 'Dwarf_CU_header', D.cu_header, D.cu_cases(), configs)
    ctx.guard('L-CONF', 'Dwarf_TU_header', dwconf.check_struct, ctx, w, 'Dwarf_TU_header', D.TU_HEADER, ({},), configs)
    ctx.guard('L-CONF', 'abbrev', check_abbrev, ctx, w)
    ctx.floor('L-CONF', 1500)
    ctx.guard('E-ii', 'initial length', check_initlen, ctx, w)
    ctx.floor('E-ii', 8)
    for cfg in configs:
        ctx.guard('G-SIG', 'forms %s' % (cfg,), check_forms, ctx, w, cfg)
    ctx.floor('G-SIG', 1400)
    ctx.guard('W-DIE', '_parse_DIE', check_parse_die, ctx, w)
    ctx.floor('W-DIE', 10)
    ctx.guard('G-TRANS', 'translate', check_translate, ctx, w)
    ctx.floor('G-TRANS', 12)
    ctx.guard('E-i', 'children', check_children, ctx, w)
    ctx.guard('E-i', 'references', check_refs, ctx, w)
    ctx.floor('E-i', 14)
    ctx.guard('SIB', 'siblings', check_siblings, ctx, w)
    ctx.floor('SIB', 8)
    ctx.guard('W-UNIT', 'unit wiring', check_unit, ctx, w)
    ctx.floor('W-UNIT', 14)
    ctx.guard('H-CUR', 'cursor', hrules.run_h, ctx, w, [DIE, CU, TU, 'dwarf/abbrevtable.py', DI],
              only={DI: ('DWARFInfo._parse_CU', 'DWARFInfo._parse_TU', 'DWARFInfo._cached_CU', 'DWARFInfo.get_abbrev', 'DWARFInfo.get_string',
                         'DWARFInfo.get_addr', 'DWARFInfo.get_CU', 'DWARFInfo.get_DIE', 'DWARFInfo.iter_', 'DWARFInfo._parse_debug_types',
                         'DWARFInfo.get_TU')})
    ctx.rule('R-GEN', 'navigation generators end by returning (PEP 479: StopIteration raised inside a generator surfaces as RuntimeError)')
    ctx.guard('R-GEN', 'generators', check_generators, ctx, w)
    ctx.floor('R-GEN', 2)
    # enumeration answers must not come out of a half-filled memo (shared with C10)
    from sa import partial
    ctx.rule('J-PARTIAL', 'the entries of a unit are never served from a container that was filled between yields or one entry per query')
    ctx.guard('J-PARTIAL', 'partial containers', partial.check_partial, ctx, w, 'J-PARTIAL', [DIE, CU, TU, 'dwarf/abbrevtable.py', DI])
    ctx.floor('J-PARTIAL', 1)
    ctx.guard('G-LIT', 'literals', literals.glit, ctx, w, [DIE, CU, TU, 'dwarf/abbrevtable.py'])
    ctx.floor('G-LIT', 60)


def check_abbrev(ctx, w):
    for (le, fmt, asz, ver) in dwconf.CONFIGS_QUICK:
        if (fmt, asz) != (32, 4):
            continue
        st = dwconf.structs_for(w, le, fmt, asz, ver)
        node = layout.struct_attr(w, st, 'Dwarf_abbrev_declaration')
        ir = dwconf.irb(w).to_ir(node)
        construct = ST + ':DWARFStructs.Dwarf_abbrev_declaration'
        lab = dwconf.label(le, fmt, asz, ver)
        # head
        head = [x for x in ir[2] if x[0] != 'repeat_until']
        got = []
        for h in head:
            got += layout.flatten(w, h, {})
        dwconf.compare_rows(ctx, 'L-CONF', construct, lab + ' head', got, dwconf.resolve(D.ABBREV_HEAD, le, fmt, asz, ver))
        rep = [x for x in ir[2] if x[0] == 'repeat_until']
        if len(rep) != 1:
            raise AnalysisError('L-CONF', construct, 'attribute specification list not found')
        for implicit in (False, True):
            case = {'form': 'DW_FORM_implicit_const' if implicit else 'DW_FORM_data1'}
            got = layout.flatten(w, rep[0][2], case)
            dwconf.compare_rows(ctx, 'L-CONF', construct, lab + ' attr_spec implicit_const=%s' % implicit, got,
                                dwconf.resolve(D.ABBREV_SPEC[implicit], le, fmt, asz, ver))
        pred = rep[0][1][1].replace(' ', '')
        ctx.ob('L-CONF', construct, lab + ' terminator (0,0)', pred == "obj.name=='DW_AT_null'andobj.form=='DW_FORM_null'", got=pred,
               msg='attribute list does not end at the (0,0) pair')
        for fld, tab in (('tag', 'ENUM_DW_TAG'), ('children_flag', 'ENUM_DW_CHILDREN'), ('name', 'ENUM_DW_AT'), ('form', 'ENUM_DW_FORM')):
            f = [x for n, x in layout.find_fields(ir) if n == fld and x[0] == 'enum']
            exp = dict((k, v) for k, v in w.table('dwarf/enums.py', tab).items() if isinstance(k, str) and k != '_default_')
            ok = len(f) == 1 and f[0][2] == exp and (type(f[0][3]).__name__ == 'Ctor' or fld == 'children_flag')
            ctx.ob('L-CONF', construct, lab + ' %s enum %s with pass-through' % (fld, tab), ok,
                   msg='code field does not use its table with pass-through default (unknown tag/attribute numbers must stay integers)')
    # abbreviation table walk: code ULEB, 0 ends, declaration follows
    f = w.model.func('dwarf/abbrevtable.py', 'AbbrevTable._parse_abbrev_table')
    env = expr.FEnv(f.node, inline=False)
    ops = [o.t() for o in streams.func_ops(f.node, env)]
    want = [('seek', 'stream', 'offset', 'SEEK_SET'), ('parse', 'stream', 'the_Dwarf_uleb128', None), ('parse', 'stream', 'Dwarf_abbrev_declaration', None)]
    ctx.ob('L-CONF', f.construct, 'seek(offset); loop: code ULEB, declaration', ops == want, got=ops, expected=want)
    tests = [expr.cond_str(n.test, env) for n in ast.walk(f.node) if isinstance(n, ast.If)]
    ctx.ob('L-CONF', f.construct, 'code 0 ends the table', tests == [expr.spec_cond('decl_code == 0')], got=tests)
    tr = expr.assign_trace(f.node, env)
    ok = [U(n) for n in ast.walk(f.node) if isinstance(n, ast.Assign) and isinstance(n.targets[0], ast.Subscript)] == \
        ['map[decl_code] = AbbrevDecl(decl_code, declaration)']
    ctx.ob('L-CONF', f.construct, 'declaration stored under its code', ok)
    g = w.model.func('dwarf/abbrevtable.py', 'AbbrevDecl.__init__')
    tr = expr.assign_trace(g.node, expr.FEnv(g.node, params=('code', 'decl')))
    ctx.ob('L-CONF', g.construct, "has_children iff children_flag == 'DW_CHILDREN_yes'",
           tr.get('self._has_children') == [('=', expr.spec_cond("children_flag == 'DW_CHILDREN_yes'"))], got=tr.get('self._has_children'))


def check_initlen(ctx, w):
    f = w.model.func(ST, '_InitialLengthAdapter._decode')
    env = expr.FEnv(f.node, params=('obj', 'context'))
    rows = []
    for conds, ret, p in paths.returns_with_conds(f.node):
        rows.append((conds, expr.nfs(ret, env), dict(expr.assign_trace(ast.Module(body=p.stmts(), type_ignores=[]), env))))
    raises = [p for p in paths.func_paths(f.node) if p.end[0] == 'raise']
    points = [0, 1, 0xfffffeff, 0xffffff00, 0xffffff01, 0xfffffffe, 0xffffffff]
    for pt in points:
        outcome = None
        for p in paths.func_paths(f.node):
            ok = True
            for t, pol in p.conds():
                if expr.partition(t, 'first', [pt])[pt] != pol:
                    ok = False
                    break
            if ok:
                if p.end[0] == 'return':
                    asg = {}
                    for st in p.stmts():
                        if isinstance(st, ast.Assign) and isinstance(st.targets[0], ast.Subscript):
                            asg[U(st.targets[0])] = U(st.value)
                    outcome = ('return', expr.nfs(p.end[1], env), asg.get("context['is64']"))
                elif p.end[0] == 'raise':
                    outcome = ('raise', 'ConstructError' in U(p.end[1]) if p.end[1] is not None else False, None)
        if pt < 0xffffff00:
            want = ('return', 'first', 'False')
        elif pt == 0xffffffff:
            want = ('return', 'second', 'True')
        else:
            want = ('raise', True, None)
        ctx.ob('E-ii', f.construct, 'first word %#x' % pt, outcome == want, got=outcome, expected=want,
               msg='initial length class differs from DWARF §7.4 (< 0xffffff00: 32-bit; 0xffffffff: 64-bit; else reserved)',
               sample='initial length %#x -> %s' % (pt, want,))
    # the adapted struct: u32 first, u64 second iff first == 0xffffffff
    for le in (True, False):
        st = dwconf.structs_for(w, le, 32, 4, 4)
        fn = st.attrs.get('Dwarf_initial_length')
        node = w.interp.call(fn, ['x'], {}, None)
        ir = dwconf.irb(w).to_ir(node)
        e = '<' if le else '>'
        ok = ir[0] == 'initlen'
        if ok:
            for first, exp in ((0x10, [('first', 'u32' + e)]), (0xffffffff, [('first', 'u32' + e), ('second', 'u64' + e)])):
                got = layout.flatten(w, ir[1], {'first': first})
                ok = ok and got == exp
        ctx.ob('E-ii', ST + ':DWARFStructs._create_initial_length', 'u32, then u64 iff 0xffffffff [%s]' % ('LSB' if le else 'MSB'), ok,
               msg='initial length field does not consume 4 bytes, or 12 for the 64-bit escape')
    g = w.model.func(ST, 'DWARFStructs.initial_length_field_size')
    # decision rows (a conditional expression or an if/else with two returns alike)
    got = expr.rows(expr.return_rows(g.node, expr.FEnv(g.node)))
    want = expr.rows(expr.return_rows(ast.parse('def f(self):\n    return 4 if self.dwarf_format == 32 else 12\n').body[0], expr.FEnv()))
    ctx.ob('E-ii', g.construct, 'size 4 / 12 by format', got == want, got=got, expected=want)


def check_forms(ctx, w, cfg):
    le, fmt, asz, ver = cfg
    st = dwconf.structs_for(w, le, fmt, asz, ver)
    table = st.attrs.get('Dwarf_dw_form')
    if not isinstance(table, dict):
        raise AnalysisError('G-SIG', ST + ':DWARFStructs._create_dw_form', 'form table not evaluable')
    forms = w.table('dwarf/enums.py', 'ENUM_DW_FORM')
    construct = ST + ':DWARFStructs._create_dw_form'
    lab = dwconf.label(le, fmt, asz, ver)
    for name in sorted(k for k in forms if isinstance(k, str) and k.startswith('DW_FORM_') and k != 'DW_FORM_null'):
        present = name in table
        ctx.ob('G-EXH', construct, '%s %s' % (name, lab), present,
               msg='form has a name (an abbreviation using it parses) but no parser: KeyError when an entry uses it')
        if not present:
            continue
        want = D.FORMS.get(name)
        if want is None:
            ctx.note('form %s has a parser but no specification row (listed)' % name)
            continue
        v = table[name]
        got = dwconf.atom_of(w, v) if v is not None else 'none'
        exp = dwconf.resolve([(None, want)], le, fmt, asz, ver)[0][1]
        ctx.ob('G-SIG', construct, '%s %s' % (name, lab), got == exp, got=got, expected=exp,
               msg='form is parsed with the wrong width/kind (DWARF 5 §7.5.6)', sample='form %s -> %s %s' % (name, exp, lab))
    for k in sorted(table):
        if not (isinstance(k, str) and k in forms):
            ctx.note('form table key %r is not a form name (harmless, listed)' % (k,))


def check_parse_die(ctx, w):
    f = w.model.func(DIE, 'DIE._parse_DIE')
    env = expr.FEnv(f.node, inline=False)
    tr = expr.assign_trace(f.node, env)
    src = U(f.node)
    try_nodes = [n for n in f.node.body if isinstance(n, ast.Try)]
    body = try_nodes[0].body if try_nodes else f.node.body
    firsts = [U(s).split('\n')[0] for s in body[:5]]
    ctx.ob('W-DIE', f.construct, 'absolute seek to the entry offset before the code is read',
           'stream.seek(self.offset)' in firsts and firsts.index('stream.seek(self.offset)') < [i for i, s in enumerate(firsts) if 'abbrev_code' in s][0],
           got=firsts, msg='DIE parse does not start with stream.seek(self.offset)')
    ctx.ob('W-DIE', f.construct, 'abbreviation code is a ULEB128', tr.get('self.abbrev_code') == [('=', 'parse_stream(the_Dwarf_uleb128,stream)')],
           got=tr.get('self.abbrev_code'))
    ctx.ob('W-DIE', f.construct, 'size = tell - offset (null entry and full entry)',
           tr.get('self.size') == [('=', expr.spec_nf('tell(stream) - offset')), ('=', expr.spec_nf('tell(stream) - offset'))], got=tr.get('self.size'))
    # null entry path returns right after setting size
    ifs = [n for n in body if isinstance(n, ast.If)]
    ok = bool(ifs) and expr.cond_str(ifs[0].test, env) == expr.spec_cond('abbrev_code == 0') and \
        [U(s) for s in ifs[0].body] == ['self.size = stream.tell() - self.offset', 'return']
    ctx.ob('W-DIE', f.construct, 'code 0 => null entry of the bytes consumed', ok)
    ctx.ob('W-DIE', f.construct, 'declaration from the unit\'s abbreviation table by code',
           tr.get('abbrev_decl') == [('=', 'get_abbrev(get_abbrev_table(cu),abbrev_code)')], got=tr.get('abbrev_decl'))
    ctx.ob('W-DIE', f.construct, 'tag / has_children from the declaration',
           tr.get('self.tag') == [('=', 'tag')] and tr.get('self.has_children') == [('=', 'has_children(abbrev_decl)')],
           got=(tr.get('self.tag'), tr.get('self.has_children')))
    loops = [n for n in ast.walk(f.node) if isinstance(n, ast.For)]
    ok = len(loops) == 1 and expr.nfs(loops[0].iter, env) == 'attr_spec'
    ctx.ob('W-DIE', f.construct, 'attributes in abbreviation order', ok, got=[expr.nfs(l.iter, env) for l in loops])
    if loops:
        lb = loops[0].body
        order = [U(s).split('\n')[0] for s in lb]
        ctx.ob('W-DIE', f.construct, 'attr_offset = tell() before the value is parsed',
               'attr_offset = stream.tell()' in order and order.index('attr_offset = stream.tell()') < [i for i, s in enumerate(order) if s.startswith('if form')][0],
               got=order)
        # the three value cases, read off the paths through one loop iteration and the values the path leaves in `value` and
        # `raw_value` (so that the arrangement of the branches and where _translate_attr_value is called do not matter)
        got = {}
        implicit = expr.spec_cond("form == 'DW_FORM_implicit_const'")
        indirect = expr.spec_cond("form == 'DW_FORM_indirect'")
        for p in paths.enum_paths(lb):
            facts = expr.Facts(expr.CP(expr.cond_str(t, env), pol) for t, pol in p.conds())
            if facts.contradiction or p.end[0] != 'fall':
                continue
            case = 'implicit_const' if facts.get(implicit) is True else ('indirect' if facts.get(indirect) is True else
                                                                          ('plain' if facts.get(implicit) is False and facts.get(indirect) is False else '?'))
            stm = [U(x) for x in p.stmts()]
            resolved = any('self._resolve_indirect()' in x for x in stm)
            parsed = any('.parse_stream(stream)' in x for x in stm)
            val = expr.path_value(p, ast.Name(id='value', ctx=ast.Load()), env)
            raw = expr.path_value(p, ast.Name(id='raw_value', ctx=ast.Load()), env)
            got.setdefault(case, set()).add((val, raw, resolved, parsed))
        want = {
            'implicit_const': {('value', 'value', False, False)},
            'indirect': {('_translate_attr_value(self,form,raw_value)', 'raw_value', True, False)},
            'plain': {('_translate_attr_value(self,form,parse_stream(index(Dwarf_dw_form,form),stream))', 'parse_stream(index(Dwarf_dw_form,form),stream)', False, True)},
        }
        ctx.ob('W-DIE', f.construct, 'implicit_const / indirect / plain value cases', got == want, got=got, expected=want,
               msg='attribute value cases differ: implicit_const consumes nothing, indirect resolves, others parse Dwarf_dw_form[form]')
        av = [n for n in ast.walk(loops[0]) if isinstance(n, ast.Call) and dispatch.callee_name(n) == 'AttributeValue']
        kw = dict((k.arg, expr.nfs(k.value, env)) for k in av[0].keywords) if av else None
        ctx.ob('W-DIE', f.construct, 'AttributeValue fields', kw == {'name': 'name', 'form': 'form', 'value': 'value', 'raw_value': 'raw_value',
                                                                     'offset': 'attr_offset', 'indirection_length': 'indirection_length'}, got=kw)
        ctx.ob('W-DIE', f.construct, 'stored under the attribute name', 'self.attributes[name] = AttributeValue(' in U(loops[0]))
    ctx.ob('W-DIE', f.construct, 'construct errors wrapped', any(isinstance(n, ast.ExceptHandler) and 'ConstructError' in U(n.type) and
           'ELFParseError' in U(n) for n in ast.walk(f.node)))
    # _resolve_indirect
    g = w.model.func(DIE, 'DIE._resolve_indirect')
    genv = expr.FEnv(g.node, inline=False)
    tr = expr.assign_trace(g.node, genv)
    ok = tr.get('real_form_code') == [('=', 'struct_parse(the_Dwarf_uleb128,stream)'), ('=', 'raw_value')] and \
        tr.get('real_form') == [('=', 'index(DW_FORM_raw2name,real_form_code)')] and \
        tr.get('raw_value') == [('=', 'struct_parse(index(Dwarf_dw_form,real_form),stream)')] and tr.get('length') == [('=', '1'), ('+=', '1')]
    ctx.ob('W-DIE', g.construct, 'form code ULEB -> raw2name -> value, repeated while indirect', ok, got=tr)
    rets = [(expr.nfs(r, genv), [expr.CP(expr.cond_str(t, genv), pol) for t, pol in c]) for c, r, p in paths.returns_with_conds(g.node)]
    ctx.ob('W-DIE', g.construct, 'returns (form, raw, length) at the first non-indirect form',
           all(r[0] == 'tuple(real_form,raw_value,length)' and expr.CP(expr.spec_cond("real_form != 'DW_FORM_indirect'"), True) in r[1] for r in rets) and bool(rets),
           got=rets[:2])
    # reverse form map is the exact inverse (shared with C17)
    fwd = w.table('dwarf/enums.py', 'ENUM_DW_FORM')
    inv = w.table('dwarf/enums.py', 'DW_FORM_raw2name')
    bad = [n for n, v in fwd.items() if isinstance(v, int) and inv.get(v) != n]
    ctx.ob('R-INV', 'dwarf/enums.py:DW_FORM_raw2name', 'exact inverse of ENUM_DW_FORM', not bad and
           len([v for v in fwd.values() if isinstance(v, int)]) == len([k for k in inv if isinstance(k, int)]), got=bad[:3])


def check_translate(ctx, w):
    f = w.model.func(DIE, 'DIE._translate_attr_value')
    env = expr.FEnv(f.node, params=('form', 'raw_value'), inline=False)
    forms = set(k for k in w.table('dwarf/enums.py', 'ENUM_DW_FORM') if isinstance(k, str))
    chains = dispatch.find_chain(f.node, dispatch.subject_name('form'), universe=forms, min_branches=4)
    if not chains:
        raise AnalysisError('G-TRANS', f.construct, 'translation dispatch not found')
    got = {}
    for b in chains[0]:
        if b.is_else:
            continue
        rets = [expr.nfs(r.value, env) for s in b.body for r in ([s] if isinstance(s, ast.Return) else []) ]
        extra = sorted(expr.cond_str(x, env) for x in b.extra)
        asg = dict((U(s.targets[0]), expr.nfs(s.value, env)) for s in b.body if isinstance(s, ast.Assign))
        for k in b.keys:
            got.setdefault(k, (rets, extra, asg))
    TI = 'T(translate_indirect)'
    sup = 'T(supplementary_dwarfinfo)'
    rows = {
        'DW_FORM_strp': (['get_string_from_table(dwarfinfo,raw_value)'], []),
        'DW_FORM_line_strp': (['get_string_from_linetable(dwarfinfo,raw_value)'], []),
        'DW_FORM_GNU_strp_alt': (['get_string_from_table(supplementary_dwarfinfo,raw_value)'], [sup]),
        'DW_FORM_strp_sup': (['get_string_from_table(supplementary_dwarfinfo,raw_value)'], [sup]),
        'DW_FORM_flag': ([expr.spec_cond('not raw_value == 0')], []),
        'DW_FORM_flag_present': (['1'], []),
        'DW_FORM_loclistx': (["_resolve_via_offset_table(stream(debug_loclists_sec),cu,raw_value,'DW_AT_loclists_base')"
                              .replace('stream(debug_loclists_sec)', 'stream')], [TI]),
        'DW_FORM_rnglistx': (["_resolve_via_offset_table(stream,cu,raw_value,'DW_AT_rnglists_base')"], [TI]),
    }
    for k in INDEX_FORMS['addrx']:
        rows[k] = (['get_addr(dwarfinfo,cu,raw_value)'], [TI])
    for k, (rets, extra) in sorted(rows.items()):
        g = got.get(k)
        ctx.ob('G-TRANS', f.construct, k, g is not None and g[0] == rets and g[1] == extra, got=g[:2] if g else None, expected=(rets, extra),
               msg='attribute value of this form is translated through the wrong table/condition', sample='translate %s -> %s' % (k, rets))
    # which section stream feeds the two list forms (the normal form drops the container)
    src = U(f.node)
    ctx.ob('G-TRANS', f.construct, 'loclistx reads .debug_loclists, rnglistx reads .debug_rnglists',
           "_resolve_via_offset_table(self.dwarfinfo.debug_loclists_sec.stream, self.cu, raw_value, 'DW_AT_loclists_base')" in src and
           "_resolve_via_offset_table(self.dwarfinfo.debug_rnglists_sec.stream, self.cu, raw_value, 'DW_AT_rnglists_base')" in src)
    for k in sorted(INDEX_FORMS['strx']):
        g = got.get(k)
        ok = g is not None and g[1] == [TI] and g[0] == ['get_string_from_table(dwarfinfo,str_offset)'] and \
            g[2].get('str_offset') == 'struct_parse(the_Dwarf_offset,stream,%s)' % expr.spec_nf('base_offset + raw_value*offset_size') and \
            g[2].get('base_offset') == "_get_base_offset(cu,'DW_AT_str_offsets_base')" and \
            g[2].get('offset_size') == expr.spec_nf('4 if dwarf_format == 32 else 8')
        ctx.ob('G-TRANS', f.construct, k, ok, got=g, msg='strx form is not resolved through str_offsets_base + index*(4|8) then .debug_str')
        ctx.ob('I-WIDTH', f.construct, '%s offset size 4/8 by format' % k, g is not None and g[2].get('offset_size') == expr.spec_nf('4 if dwarf_format == 32 else 8'))
    ctx.ob('G-TRANS', f.construct, 'str offsets read from .debug_str_offsets', 'stream = self.dwarfinfo.debug_str_offsets_sec.stream' in src)
    tr = expr.assign_trace(f.node, env)
    ctx.ob('G-TRANS', f.construct, 'translate_indirect gate',
           tr.get('translate_indirect') == [('=', expr.spec_cond('has_top_DIE(cu) or offset != cu_die_offset'))], got=tr.get('translate_indirect'))
    # the path on which no form test succeeded (every branch outcome negative) returns the raw value
    rets = sorted(set(expr.nfs(r, env) for c, r, p in paths.returns_with_conds(f.node) if c and not any(pol for t, pol in c)))
    ctx.ob('G-TRANS', f.construct, 'other forms keep the raw value', rets == ['raw_value'], got=rets)
    # sibling agreement: the form set of _translate_indirect_attributes == union of the index-form branches
    g2 = w.model.func(DIE, 'DIE._translate_indirect_attributes')
    sets = []
    for n in ast.walk(g2.node):
        if isinstance(n, ast.Compare) and isinstance(n.ops[0], ast.In) and isinstance(n.comparators[0], ast.Tuple):
            sets.append(frozenset(e.value for e in n.comparators[0].elts if isinstance(e, ast.Constant)))
    union = frozenset().union(*INDEX_FORMS.values())
    code_union = frozenset(k for k, v in got.items() if TI in v[1])
    ctx.ob('SIB', g2.construct, 'deferred form set == index-form branches of _translate_attr_value', sets == [code_union], got=sorted(sets[0] ^ code_union) if sets else None,
           msg='the forms re-translated for the top DIE differ from the forms whose translation is deferred')
    ctx.ob('SIB', g2.construct, 'deferred form set == specification', sets == [union], got=sorted(sets[0] ^ union) if sets else None)
    # helpers
    check_offset_table(ctx, w, 'G-TRANS')
    h = w.model.func(DI, 'DWARFInfo.get_addr')
    henv = expr.FEnv(h.node, params=('cu', 'addr_index'))
    ops = [o.t() for o in streams.func_ops(h.node, henv) if o.kind == 'parse']
    want = ('parse', 'stream', 'the_Dwarf_target_addr', expr.spec_nf("_get_base_offset(cu,'DW_AT_addr_base') + addr_index*address_size"))
    ctx.ob('G-TRANS', h.construct, 'address at addr_base + index*address_size', ops == [want], got=ops, expected=want)
    ctx.ob('G-TRANS', h.construct, 'reads .debug_addr', 'self.debug_addr_sec.stream' in U(h.node))
    h = w.model.func('dwarf/dwarf_util.py', '_get_base_offset')
    henv = expr.FEnv(h.node, params=('cu', 'base_attribute_name'), inline=False)
    rets = [expr.nfs(r.value, henv) for r in expr.returns_of(h.node)]
    ctx.ob('G-TRANS', h.construct, 'base from the top DIE attribute', rets == ['value(index(attributes,base_attribute_name))'] or
           rets == ['value'], got=rets)


def check_children(ctx, w):
    for mod, cls, off in ((CU, 'CompileUnit', 'cu_offset'), (TU, 'TypeUnit', 'tu_offset')):
        f = w.model.func(mod, cls + '.iter_DIE_children')
        env = expr.FEnv(f.node, params=('die',), inline=False)
        tr = expr.assign_trace(f.node, env)
        got = tr.get('cur_offset')
        want = [('=', expr.spec_nf('offset + size')), ('+=', 'size'), ('=', expr.spec_nf('value + %s' % off)), ('=', 'value'),
                ('=', expr.spec_nf('offset + size'))]
        ctx.ob('E-i', f.construct, 'cursor cases', got == want, got=got, expected=want,
               msg='next-sibling position: first child = parent end; no children: += size; sibling ref: value + unit offset; '
                   'ref_addr: value; else terminator end')
        # which objects the formulas read (the normal form drops containers): compare source of the five assignments
        srcs = [U(n) for n in ast.walk(f.node) if isinstance(n, (ast.Assign, ast.AugAssign)) and 'cur_offset' in U(n.targets[0] if isinstance(n, ast.Assign) else n.target)]
        want_src = ['cur_offset = die.offset + die.size', 'cur_offset += child.size', 'cur_offset = sibling.value + self.%s' % off,
                    'cur_offset = sibling.value', 'cur_offset = child._terminator.offset + child._terminator.size']
        ctx.ob('E-i', f.construct, 'cursor operands', sorted(srcs) == sorted(want_src), got=srcs, expected=want_src)
        tests = [expr.cond_str(n.test, env) for n in ast.walk(f.node) if isinstance(n, ast.If)]
        for t in ('!T(has_children)', 'T(is_null(child))', "[in:'DW_AT_sibling' in attributes]", expr.spec_cond("form == 'DW_FORM_ref_addr'"),
                  expr.spec_cond('_terminator is None')):
            ctx.ob('E-i', f.construct, 'test ' + t, t in tests, got=tests)
        sets = [frozenset(e.value for e in n.comparators[0].elts) for n in ast.walk(f.node)
                if isinstance(n, ast.Compare) and isinstance(n.ops[0], ast.In) and isinstance(n.comparators[0], ast.Tuple)
                and all(isinstance(e, ast.Constant) and str(e.value).startswith('DW_FORM_') for e in n.comparators[0].elts)]
        ctx.ob('SIB', f.construct, 'unit-relative form set', sets == [REL_FORMS], got=[sorted(s ^ REL_FORMS) for s in sets],
               msg='the set of unit-relative reference forms differs from the specification / the sibling modules')
        # null child => terminator recorded, iteration ends; children get their parent set; child comes from the cache
        body = U(f.node)
        nullifs = [n for n in ast.walk(f.node) if isinstance(n, ast.If) and expr.cond_str(n.test, env) == 'T(is_null(child))']
        ctx.ob('E-i', f.construct, 'terminator recorded and iteration ends on the null entry',
               len(nullifs) == 1 and [U(x) for x in nullifs[0].body] == ['die._terminator = child', 'return'])
        ctx.ob('E-i', f.construct, 'child from _get_cached_DIE(cur_offset), parent set',
               tr.get('child') == [('=', '_get_cached_DIE(self,cur_offset)')] and 'child.set_parent(die)' in body, got=tr.get('child'))
    f = w.model.func(DIE, 'DIE.get_DIE_from_attribute')
    sets = [frozenset(e.value for e in n.comparators[0].elts) for n in ast.walk(f.node)
            if isinstance(n, ast.Compare) and isinstance(n.ops[0], ast.In) and isinstance(n.comparators[0], ast.Tuple)
            and len(n.comparators[0].elts) > 3]
    ctx.ob('SIB', f.construct, 'unit-relative form set', sets == [REL_FORMS], got=[sorted(s ^ REL_FORMS) for s in sets])


def check_refs(ctx, w):
    f = w.model.func(DIE, 'DIE.get_DIE_from_attribute')
    env = expr.FEnv(f.node, params=('name',), inline=False)
    forms = set(k for k in w.table('dwarf/enums.py', 'ENUM_DW_FORM') if isinstance(k, str))
    chains = dispatch.find_chain(f.node, dispatch.subject_src('attr.form'), universe=forms, min_branches=3)
    got = {}
    if chains:
        for b in chains[0]:
            if b.is_else:
                got['else'] = ['raise' if any(isinstance(s, ast.Raise) for s in b.body) else '?']
                continue
            rets = [expr.nfs(s.value, env) for s in ast.walk(ast.Module(body=b.body, type_ignores=[])) if isinstance(s, ast.Return)]
            for k in b.keys:
                got.setdefault(k, rets)
    for k in sorted(REL_FORMS):
        ctx.ob('E-i', f.construct, k, got.get(k) == ['get_DIE_from_refaddr(cu,refaddr)'], got=got.get(k))
    tr = expr.assign_trace(f.node, env)
    ctx.ob('E-i', f.construct, 'unit-relative target = cu_offset + raw value', tr.get('refaddr') == [('=', expr.spec_nf('cu_offset + raw_value'))], got=tr.get('refaddr'))
    ctx.ob('E-i', f.construct, 'DW_FORM_ref_addr (and only it) -> section offset', got.get('DW_FORM_ref_addr') == ['get_DIE_from_refaddr(dwarfinfo,raw_value)'] and
           [k for k, v in got.items() if v == ['get_DIE_from_refaddr(dwarfinfo,raw_value)'] and 'sup' not in k and 'alt' not in k] == ['DW_FORM_ref_addr'],
           got=[k for k, v in got.items() if v == ['get_DIE_from_refaddr(dwarfinfo,raw_value)']],
           msg='section-relative references (exactly DW_FORM_ref_addr; the parenthesised string is a substring test evaluated over the form names)')
    ctx.ob('E-i', f.construct, 'DW_FORM_ref_sig8 (and only it) -> type unit by signature', got.get('DW_FORM_ref_sig8') == ['get_DIE_by_sig8(dwarfinfo,raw_value)'] and
           [k for k, v in got.items() if v == ['get_DIE_by_sig8(dwarfinfo,raw_value)']] == ['DW_FORM_ref_sig8'],
           got=[k for k, v in got.items() if v == ['get_DIE_by_sig8(dwarfinfo,raw_value)']])
    ctx.ob('E-i', f.construct, 'non-reference forms rejected', got.get('else') == ['raise'])
    g = w.model.func(DI, 'DWARFInfo.get_DIE_by_sig8')
    rets = [expr.nfs(r.value, expr.FEnv(g.node, params=('sig8',), inline=False)) for r in expr.returns_of(g.node)]
    ctx.ob('E-i', g.construct, 'entry at tu_offset + type_offset', rets == ['_get_cached_DIE(tu,%s)' % expr.spec_nf('tu_offset + type_offset')], got=rets)
    g = w.model.func(DI, 'DWARFInfo.get_DIE_from_refaddr')
    genv = expr.FEnv(g.node, params=('refaddr', 'cu'), inline=False)
    rets = [expr.nfs(r.value, genv) for r in expr.returns_of(g.node)]
    tr = expr.assign_trace(g.node, genv)
    ctx.ob('E-i', g.construct, 'unit = get_CU_containing(refaddr) when not given', rets == ['get_DIE_from_refaddr(cu,refaddr)'] and
           tr.get('cu') == [('=', 'get_CU_containing(self,refaddr)')], got=(rets, tr.get('cu')))
    check_cu_containing(ctx, w, 'E-i')
    for mod, cls, off, dof in ((CU, 'CompileUnit', 'cu_offset', 'cu_die_offset'), (TU, 'TypeUnit', 'tu_offset', 'tu_die_offset')):
        g = w.model.func(mod, cls + '.get_DIE_from_refaddr')
        genv = expr.FEnv(g.node, params=('refaddr',))
        conds = [expr.cond_str(n.args[0], genv) for n in ast.walk(g.node) if isinstance(n, ast.Call) and isinstance(n.func, ast.Name) and n.func.id == 'dwarf_assert']
        ctx.ob('E-i', g.construct, 'target inside [die offset, unit end)', conds == [expr.spec_cond('cu_die_offset <= refaddr < cu_offset + size')], got=conds)
        rets = [expr.nfs(r.value, genv) for r in expr.returns_of(g.node)]
        ctx.ob('E-i', g.construct, 'through the DIE cache', rets == ['_get_cached_DIE(self,refaddr)'], got=rets)
        g = w.model.func(mod, cls + '.size')
        rets = [expr.nfs(r.value, expr.FEnv(g.node)) for r in expr.returns_of(g.node)]
        ctx.ob('E-i', g.construct, 'extent = unit_length + initial length size', rets == [expr.spec_nf('unit_length + structs.initial_length_field_size()')], got=rets)


def check_offset_table(ctx, w, rule):
    """list index forms: the list offset is the table base plus the word stored at base + index * (4|8), read from the section
    the caller names -- computed, not remembered (shared with C07)"""
    h = w.model.func('dwarf/dwarf_util.py', '_resolve_via_offset_table')
    henv = expr.FEnv(h.node, params=('stream', 'cu', 'index', 'base_attribute_name'))
    rets = [expr.nfs(r.value, henv) for r in expr.returns_of(h.node)]
    want = expr.spec_nf("_get_base_offset(cu, base_attribute_name) + struct_parse(the_Dwarf_offset, stream, "
                        "_get_base_offset(cu, base_attribute_name) + index * (4 if dwarf_format == 32 else 8))")
    ctx.ob(rule, h.construct, 'base + word at base + index*(4|8)', rets == [want], got=rets, expected=want)
    ctx.ob(rule, h.construct, 'offset size 4/8 by format', 'offset_size = 4 if cu.structs.dwarf_format == 32 else 8' in U(h.node))
    ctx.ob(rule, h.construct, 'under preserve_stream_pos', any(isinstance(n, ast.With) and 'preserve_stream_pos(stream)' in U(n.items[0]) and
           any(isinstance(x, ast.Return) for x in ast.walk(n)) for n in ast.walk(h.node)))


def check_cu_containing(ctx, w, rule):
    """section-relative references: the unit whose extent [cu_offset, cu_offset + size) contains the target.  Shared with
    C13 (lookup tables hand out unit offsets) and C10 (the walk starts at the nearest cached unit, so only a half-open
    extent test gives the same unit whatever was cached before)."""
    h = w.model.func(DI, 'DWARFInfo.get_CU_containing')
    henv = expr.FEnv(h.node, params=('refaddr',), inline=False)
    tests = [n for n in ast.walk(h.node) if isinstance(n, ast.If)]
    eq = False
    if tests:
        eq, cex, n = expr.tt_equiv(expr.cond_tt(tests[0].test, henv), expr.spec_tt('cu_offset <= refaddr < cu_offset + size'))
    ctx.ob(rule, h.construct, 'unit found iff cu_offset <= refaddr < cu_offset + size (size includes the initial length field)', eq,
           msg='a section-relative reference into the last bytes of a unit must still resolve to that unit, and the first offset of the next '
               'unit must not: with an inclusive end the answer depends on which unit the walk starts from, i.e. on what was cached before')
    # both bounds are properties of the unit the loop is looking at
    loops = [n for n in ast.walk(h.node) if isinstance(n, ast.For) and isinstance(n.target, ast.Name)]
    ok = False
    if loops and tests:
        v = loops[0].target.id
        attrs = set(x.attr for x in ast.walk(tests[0].test) if isinstance(x, ast.Attribute) and isinstance(x.value, ast.Name) and x.value.id == v)
        ok = attrs == {'cu_offset', 'size'}
    ctx.ob(rule, h.construct, 'extent bounds are cu_offset and size of the unit under test', ok)


def _norm_method(node, ren):
    n = copy.deepcopy(node)
    if n.body and isinstance(n.body[0], ast.Expr) and isinstance(n.body[0].value, ast.Constant):
        n.body = n.body[1:] or [ast.Pass()]
    # assertions state beliefs, they decode nothing: one sibling may carry one the other does not
    for x in ast.walk(n):
        for fld in ('body', 'orelse', 'finalbody'):
            b = getattr(x, fld, None)
            if isinstance(b, list) and any(isinstance(st, ast.Assert) for st in b):
                setattr(x, fld, [st for st in b if not isinstance(st, ast.Assert)] or [ast.Pass()])
    for x in ast.walk(n):
        if isinstance(x, ast.Attribute) and x.attr in ren:
            x.attr = ren[x.attr]
        if isinstance(x, ast.Name) and x.id in ren:
            x.id = ren[x.id]
        if isinstance(x, ast.Constant) and isinstance(x.value, str):
            x.value = 'S' if len(x.value) > 30 else x.value
    return ast.dump(n, annotate_fields=False)


def check_siblings(ctx, w):
    ren = {'tu_offset': 'cu_offset', 'tu_die_offset': 'cu_die_offset', 'debug_types_sec': 'debug_info_sec', 'tu': 'cu'}
    cu = w.model.cls('CompileUnit')
    tu = w.model.cls('TypeUnit')
    for m in ('get_abbrev_table', 'get_top_DIE', 'has_top_DIE', 'size', 'get_DIE_from_refaddr', 'iter_DIEs', 'iter_DIE_children',
              '_iter_DIE_subtree', '_get_cached_DIE', '__getitem__', 'dwarf_format'):
        a = cu.methods.get(m)
        b = tu.methods.get(m)
        if a is None or b is None:
            ctx.ob('SIB', TU + ':TypeUnit.' + m, 'exists in both unit kinds', False, msg='method missing in one unit kind')
            continue
        ctx.ob('SIB', TU + ':TypeUnit.' + m, 'agrees with CompileUnit.' + m, _norm_method(a.node, {}) == _norm_method(b.node, ren),
               msg='the two unit kinds implement this shared operation differently (modulo the cu_/tu_ renaming)', line=b.node.lineno,
               sample='TypeUnit.%s == CompileUnit.%s modulo renaming' % (m, m))


def check_unit(ctx, w):
    for q, sec, hdr, cls, pre in (('DWARFInfo._parse_CU_at_offset', 'debug_info_sec', 'Dwarf_CU_header', 'CompileUnit', 'cu'),
                                  ('DWARFInfo._parse_TU_at_offset', 'debug_types_sec', 'Dwarf_TU_header', 'TypeUnit', 'tu')):
        f = w.model.func(DI, q)
        env = expr.FEnv(f.node, params=('offset',), inline=False)
        tr = expr.assign_trace(f.node, env)
        src = U(f.node)
        ctx.ob('W-UNIT', f.construct, 'format from the first word', tr.get('dwarf_format') == [('=', expr.spec_nf('64 if initial_length == 0xFFFFFFFF else 32'))] and
               tr.get('initial_length') == [('=', 'struct_parse(the_Dwarf_uint32,stream,offset)')], got=(tr.get('dwarf_format'), tr.get('initial_length')),
               msg='DWARF format is not 64 exactly when the first word is 0xffffffff')
        ops = [o.t() for o in streams.func_ops(f.node, env)]
        want = [('parse', 'stream', 'the_Dwarf_uint32', 'offset'), ('parse', 'stream', hdr, 'offset'), ('tell', 'stream')]
        ctx.ob('W-UNIT', f.construct, 'peek word, header at offset, top-DIE offset = tell()', ops == want, got=ops, expected=want)
        ctx.ob('W-UNIT', f.construct, 'all on the section stream', src.count('self.%s.stream' % sec) == 3, got=src.count('self.%s.stream' % sec))
        ds = [c for c in ast.walk(f.node) if isinstance(c, ast.Call) and dispatch.callee_name(c) == 'DWARFStructs']
        kws = [dict((k.arg, expr.nfs(k.value, env)) for k in c.keywords) for c in sorted(ds, key=lambda c: c.lineno)]
        want_k = [{'little_endian': 'little_endian', 'dwarf_format': 'dwarf_format', 'address_size': '4', 'dwarf_version': '2'},
                  {'little_endian': 'little_endian', 'dwarf_format': 'dwarf_format', 'address_size': 'address_size', 'dwarf_version': 'version'}]
        ctx.ob('W-UNIT', f.construct, 'structs from the header\'s own address_size and version', kws == want_k, got=kws, expected=want_k)
        conds = [expr.nfs(n.args[0], env) for n in ast.walk(f.node) if isinstance(n, ast.Call) and isinstance(n.func, ast.Name) and n.func.id == 'dwarf_assert']
        ctx.ob('W-UNIT', f.construct, 'version check', conds == ['_is_supported_version(self,version)'], got=conds)
        mk = [c for c in ast.walk(f.node) if isinstance(c, ast.Call) and dispatch.callee_name(c) == cls]
        kw = dict((k.arg, expr.nfs(k.value, env)) for k in mk[0].keywords) if mk else None
        want_kw = {'header': pre + '_header', 'dwarfinfo': 'self', 'structs': pre + '_structs', pre + '_offset': 'offset', pre + '_die_offset': pre + '_die_offset'}
        ctx.ob('W-UNIT', f.construct, 'unit object wiring', kw == want_kw, got=kw, expected=want_kw)
    g = w.model.func(DI, 'DWARFInfo._is_supported_version')
    genv = expr.FEnv(g.node, params=('version',))
    t = expr.returns_of(g.node)[0].value
    pts = dict((p, expr.partition(t, 'version', [p])[p]) for p in (0, 1, 2, 3, 4, 5, 6, 7))
    ctx.ob('W-UNIT', g.construct, 'supported versions 2..5', pts == {0: False, 1: False, 2: True, 3: True, 4: True, 5: True, 6: False, 7: False}, got=pts)
    for q, sz, parse in (('DWARFInfo._parse_CUs_iter', 'debug_info_sec', '_cached_CU_at_offset'), ('DWARFInfo._parse_TUs_iter', 'debug_types_sec', '_parse_TU_at_offset'),
                         ('DWARFInfo._parse_debug_types', 'debug_types_sec', '_parse_TU_at_offset')):
        g = w.model.func(DI, q)
        genv = expr.FEnv(g.node, params=('offset',), inline=False)
        tr = expr.assign_trace(g.node, genv)
        off = tr.get('offset')
        # x = x + a + b is normalised to x += a + b (sa/canon.py N2)
        want_adv = ('+=', expr.spec_nf('unit_length + structs.initial_length_field_size()'))
        ctx.ob('W-UNIT', g.construct, 'next unit = offset + unit_length + initial length size', off is not None and off[-1] == want_adv, got=off, expected=want_adv)
        whiles = [n for n in ast.walk(g.node) if isinstance(n, ast.While)]
        ctx.ob('W-UNIT', g.construct, 'until the section size', len(whiles) == 1 and expr.cond_str(whiles[0].test, genv) == expr.spec_cond('offset < size') and
               'self.%s.size' % sz in U(whiles[0].test), got=[U(x.test) for x in whiles])
        ctx.ob('W-UNIT', g.construct, 'unit parsed at offset', '%s(offset)' % parse in U(g.node))
    g = w.model.func(DI, 'DWARFInfo.get_abbrev_table')
    genv = expr.FEnv(g.node, params=('offset',))
    ctx.ob('W-UNIT', g.construct, 'table parsed from .debug_abbrev at the offset, cached by offset',
           'self._abbrevtable_cache[offset] = AbbrevTable(structs=self.structs, stream=self.debug_abbrev_sec.stream, offset=offset)' in U(g.node))
    for mod, cls in ((CU, 'CompileUnit'), (TU, 'TypeUnit')):
        g = w.model.func(mod, cls + '.get_abbrev_table')
        tr = expr.assign_trace(g.node, expr.FEnv(g.node))
        ctx.ob('W-UNIT', g.construct, 'abbreviations at debug_abbrev_offset', tr.get('self._abbrev_table') == [('=', 'get_abbrev_table(dwarfinfo,debug_abbrev_offset)')],
               got=tr.get('self._abbrev_table'))


MUTANTS = [
    ('siblings-stopiteration', 'dwarf/die.py', "                if sibling is not self:\n                    yield sibling\n", "                if sibling is not self:\n                    yield sibling\n        else:\n            raise StopIteration()\n", 'R-GEN'),
    ('strx-container-format', 'dwarf/die.py', "            offset_size = 4 if self.cu.structs.dwarf_format == 32 else 8", "            offset_size = 4 if self.dwarfinfo.structs.dwarf_format == 32 else 8", 'G-OWNER'),
    ('strx-container-width', 'dwarf/die.py', "            str_offset = struct_parse(self.cu.structs.the_Dwarf_offset, stream,", "            str_offset = struct_parse(self.dwarfinfo.structs.the_Dwarf_offset, stream,", 'G-OWNER'),
    ('cu-iter-container-initlen', 'dwarf/dwarfinfo.py', "                      cu.structs.initial_length_field_size())", "                      self.structs.initial_length_field_size())", 'G-OWNER'),
    ('strx4-u64', ST, "DW_FORM_strx4=self.the_Dwarf_uint32,", "DW_FORM_strx4=self.Dwarf_uint64(''),", 'G-SIG'),
    ('data2-u8', ST, "DW_FORM_data2=self.the_Dwarf_uint16,", "DW_FORM_data2=self.the_Dwarf_uint8,", 'G-SIG'),
    ('v5-swap-back', ST, "dwarfv5_CP_CU_header = Struct('',                  \n            self.Dwarf_uint8('address_size'),\n            self.Dwarf_offset('debug_abbrev_offset')", "dwarfv5_CP_CU_header = Struct('',                  \n            self.Dwarf_offset('debug_abbrev_offset'),\n            self.Dwarf_uint8('address_size')", 'L-CONF'),
    ('skeleton-case', ST, "'DW_UT_skeleton'      : dwarfv5_SS_CU_header,", "'DW_UT_skeleton'      : dwarfv5_CP_CU_header,", 'L-CONF'),
    ('size-offset', DIE, "            self.size = stream.tell() - self.offset\n        except", "            self.size = stream.tell() - attr_offset\n        except", 'W-DIE'),
    ('sibling-no-cu', CU, "cur_offset = sibling.value + self.cu_offset", "cur_offset = sibling.value", 'E-i'),
    ('relform-dropped', CU, "                if sibling.form in ('DW_FORM_ref1', 'DW_FORM_ref2',\n                                    'DW_FORM_ref4', 'DW_FORM_ref8',", "                if sibling.form in ('DW_FORM_ref1', 'DW_FORM_ref2',\n                                    'DW_FORM_ref4',", 'SIB'),
    ('escape-fffe', ST, "            if obj.first == 0xFFFFFFFF:", "            if obj.first == 0xFFFFFFFE:", 'E-ii'),
    ('reserved-le', ST, "        if obj.first < 0xFFFFFF00:", "        if obj.first <= 0xFFFFFF00:", 'E-ii'),
    ('offsize-swapped', DIE, "offset_size = 4 if self.cu.structs.dwarf_format == 32 else 8", "offset_size = 8 if self.cu.structs.dwarf_format == 32 else 4", None),
    ('fmt-fffffffe', DI, "        dwarf_format = 64 if initial_length == 0xFFFFFFFF else 32\n\n\n        # Temporary structs for parsing the header\n        # The structs for the rest of the CU", "        dwarf_format = 64 if initial_length >= 0xFFFFFFF0 else 32\n\n\n        # Temporary structs for parsing the header\n        # The structs for the rest of the CU", 'W-UNIT'),
    ('ref-addr-v2', ST, "DW_FORM_ref_addr=self.the_Dwarf_target_addr if self.dwarf_version == 2 else self.the_Dwarf_offset,", "DW_FORM_ref_addr=self.the_Dwarf_offset,", 'G-SIG'),
    ('implicit-const-u', ST, "                        self.Dwarf_sleb128('value')))))", "                        self.Dwarf_uleb128('value')))))", 'L-CONF'),
    ('die-noseek', DIE, "            stream.seek(self.offset)\n            self.abbrev_code", "            self.abbrev_code", None),
    ('tu-size', TU, "return self['unit_length'] + self.structs.initial_length_field_size()", "return self['unit_length'] + 4", None),
    ('flag-inverted', DIE, "return not raw_value == 0", "return raw_value == 0", 'G-TRANS'),
    ('addr-base-width', DI, "cu_addr_base + addr_index*cu.header.address_size)", "cu_addr_base + addr_index*4)", 'G-TRANS'),
    ('cu-next', DI, "            offset = (offset +\n                      cu['unit_length'] +\n                      cu.structs.initial_length_field_size())", "            offset = (offset +\n                      cu['unit_length'] + 4)", 'W-UNIT'),
    ('version-6', DI, "return 2 <= version <= 5", "return 2 <= version <= 6", 'W-UNIT'),
    ('terminator-size', CU, "cur_offset = child._terminator.offset + child._terminator.size", "cur_offset = child._terminator.offset", 'E-i'),
    ('refaddr-cu', DIE, "            refaddr = self.cu.cu_offset + attr.raw_value", "            refaddr = self.cu.cu_die_offset + attr.raw_value", 'E-i'),
    ('sig8-offset', DI, "return tu._get_cached_DIE(tu.tu_offset + tu['type_offset'])", "return tu._get_cached_DIE(tu.tu_die_offset + tu['type_offset'])", 'E-i'),
    ('abbrev-code-u8', 'dwarf/abbrevtable.py', "            decl_code = struct_parse(\n                struct=self.structs.the_Dwarf_uleb128,", "            decl_code = struct_parse(\n                struct=self.structs.the_Dwarf_uint8,", 'L-CONF'),
    ('indirect-length', DIE, "                length += 1\n", "                pass\n", 'W-DIE'),
    ('attr-offset-late', DIE, "                attr_offset = stream.tell()\n                indirection_length = 0", "                indirection_length = 0", 'W-DIE'),
]


GEN_SAMPLE = """
def iter_siblings(self):
    parent = self.get_parent()
    if parent:
        for s in parent.iter_children():
            yield s
    else:
        raise StopIteration()
"""


def _stopiteration_raises(fnode):
    from sa.model import walk_no_nested
    nodes = list(walk_no_nested(fnode))
    if not any(isinstance(n, (ast.Yield, ast.YieldFrom)) for n in nodes):
        return []
    return [n for n in nodes if isinstance(n, ast.Raise) and n.exc is not None and
            (U(n.exc) in ('StopIteration', 'StopIteration()') or U(n.exc).startswith('StopIteration('))]


def check_generators(ctx, w):
    """An entry without siblings / children has an empty list of them: the generator that enumerates it must simply end.  Since PEP 479
    (Python 3.7) `raise StopIteration` inside a generator body is turned into RuntimeError at the caller."""
    hit = _stopiteration_raises(ast.parse(GEN_SAMPLE).body[0])
    ctx.ob('R-GEN', 'built-in sample', 'the rule fires on its positive example', len(hit) == 1, got=len(hit))
    n = 0
    for f in w.model.library_funcs():
        if '/construct/' in f.mod:
            continue
        from sa.model import walk_no_nested
        if not any(isinstance(x, (ast.Yield, ast.YieldFrom)) for x in walk_no_nested(f.node)):
            continue
        n += 1
        for r in _stopiteration_raises(f.node):
            ctx.ob('R-GEN', f.construct, 'raise StopIteration in a generator', False, line=r.lineno, got=U(r),
                   msg='the enumeration of an empty list (an entry without a parent has no siblings) raises RuntimeError instead of yielding nothing')
    ctx.ob('R-GEN', 'library', 'generator functions examined', n > 30, sample='%d generator functions' % n, got=n)
