"""C07 -- location and range lists decode to exactly the encoded entries.

Decides (DESIGN.md §3 C07): v5 list headers and every DW_LLE/DW_RLE case struct (G-EXH vs the enums, operands vs
DWARF 5 rows); translation tables: keys, fields read belong to the case struct (G-FLD), outputs in normal form;
v4 parsers; offset-table/address-table access; section enumeration formulas incl. offset-entry width (I-WIDTH) and
generator cursor discipline (H-YIELD); attribute classification over forms x versions x attributes (E-iii).
"""
import ast
from sa.canon import U
from sa.world import get_world
from sa import dwconf, layout, expr, paths, streams, dispatch, literals, hrules, owner
from sa.absint import FuncV, Unknown
from sa.report import AnalysisError
from spec import dwarf as D

LL = 'dwarf/locationlists.py'
RG = 'dwarf/ranges.py'
UT = 'dwarf/dwarf_util.py'

# translation outputs: constructor(field list) per kind; 'A(x)' = address-table lookup of index field x
from sa import expr as _E
_A = lambda f: 'get_addr(dwarfinfo, cu, %s)' % f
_N = _E.spec_nf
LLE_OUT = {
    'DW_LLE_base_address': _N('BaseAddressEntry(entry_offset, entry_length, address)'),
    'DW_LLE_offset_pair': _N('LocationEntry(entry_offset, entry_length, start_offset, end_offset, loc_expr, False)'),
    'DW_LLE_start_length': _N('LocationEntry(entry_offset, entry_length, start_address, start_address + length, loc_expr, True)'),
    'DW_LLE_start_end': _N('LocationEntry(entry_offset, entry_length, start_address, end_address, loc_expr, True)'),
    'DW_LLE_default_location': _N('LocationEntry(entry_offset, entry_length, -1, -1, loc_expr, True)'),
    'DW_LLE_base_addressx': _N('BaseAddressEntry(entry_offset, entry_length, %s)' % _A('index')),
    'DW_LLE_startx_endx': _N('LocationEntry(entry_offset, entry_length, %s, %s, loc_expr, True)' % (_A('start_index'), _A('end_index'))),
    'DW_LLE_startx_length': _N('LocationEntry(entry_offset, entry_length, %s, %s + length, loc_expr, True)' % (_A('start_index'), _A('start_index'))),
}
RLE_OUT = {
    'DW_RLE_base_address': _N('BaseAddressEntry(entry_offset, address)'),
    'DW_RLE_offset_pair': _N('RangeEntry(entry_offset, entry_length, start_offset, end_offset, False)'),
    'DW_RLE_start_end': _N('RangeEntry(entry_offset, entry_length, start_address, end_address, True)'),
    'DW_RLE_start_length': _N('RangeEntry(entry_offset, entry_length, start_address, start_address + length, True)'),
    'DW_RLE_base_addressx': _N('BaseAddressEntry(entry_offset, %s)' % _A('index')),
    'DW_RLE_startx_endx': _N('RangeEntry(entry_offset, entry_length, %s, %s, True)' % (_A('start_index'), _A('end_index'))),
    'DW_RLE_startx_length': _N('RangeEntry(entry_offset, entry_length, %s, %s + length, True)' % (_A('start_index'), _A('start_index'))),
}

# DWARF 2-5 attribute classes (§7.5.4/§7.5.5): location-class attributes
LOC_ATTRS = ['DW_AT_location', 'DW_AT_string_length', 'DW_AT_return_addr', 'DW_AT_data_member_location', 'DW_AT_frame_base',
             'DW_AT_segment', 'DW_AT_static_link', 'DW_AT_use_location', 'DW_AT_vtable_elem_location', 'DW_AT_call_value',
             'DW_AT_call_target', 'DW_AT_call_target_clobbered', 'DW_AT_call_data_location', 'DW_AT_call_data_value',
             'DW_AT_GNU_call_site_value', 'DW_AT_GNU_call_site_target', 'DW_AT_GNU_call_site_data_value']
BLOCKS = ['DW_FORM_block1', 'DW_FORM_block2', 'DW_FORM_block4', 'DW_FORM_block']
CONSTS = ['DW_FORM_data1', 'DW_FORM_data2', 'DW_FORM_data4', 'DW_FORM_data8', 'DW_FORM_sdata', 'DW_FORM_udata']


def spec_class(attr, form, ver):
    """-> 'expr' | 'list' | 'none' | None (cell the standard leaves undefined: not compared)"""
    if attr not in LOC_ATTRS + ['DW_AT_upper_bound', 'DW_AT_count', 'DW_AT_const_value']:
        return 'none'
    if attr == 'DW_AT_const_value':
        # block/constant/string class, never a location: only exprloc/sec_offset would be odd -> undefined
        return 'none' if form in BLOCKS + CONSTS + ['DW_FORM_string', 'DW_FORM_strp'] else None
    if form == 'DW_FORM_exprloc':
        return 'expr' if ver >= 4 else None
    if form in BLOCKS:
        return 'expr' if ver < 4 else None
    if form in ('DW_FORM_sec_offset', 'DW_FORM_loclistx'):
        if attr in ('DW_AT_upper_bound', 'DW_AT_count'):
            return None
        return 'list' if ver >= 4 else None
    if form in ('DW_FORM_data4', 'DW_FORM_data8'):
        if attr in ('DW_AT_upper_bound', 'DW_AT_count'):
            return 'none'
        if attr == 'DW_AT_data_member_location' and ver >= 3:
            return 'none'          # constant class from DWARF 3 on
        return 'list' if ver < 4 else None
    if form in ('DW_FORM_data1', 'DW_FORM_data2', 'DW_FORM_sdata', 'DW_FORM_udata'):
        if attr in ('DW_AT_upper_bound', 'DW_AT_count'):
            return 'none'
        if attr == 'DW_AT_data_member_location' and ver >= 3:
            return 'none'
        return None
    return 'none' if form in ('DW_FORM_string', 'DW_FORM_strp', 'DW_FORM_flag', 'DW_FORM_ref4', 'DW_FORM_addr') else None


def run(ctx):
    w = get_world(ctx)
    ctx.explanation.append(
        'C07: loclists/rnglists unit headers and the Switch case struct of every DW_LLE/DW_RLE kind for all configurations '
        'vs DWARF 5 rows (L-CONF, G-EXH vs ENUM_DW_LLE/RLE); translation tables evaluated: key sets, fields read are fields of '
        'the case struct (G-FLD), constructor arguments in normal form incl. start+length and address-table lookups (G-SIG); '
        'v4 parsers (W-V4); offset/address table access widths (I-WIDTH); enumeration formulas; generator cursor discipline '
        '(H-YIELD); attribute classification evaluated over attributes x forms x versions 2-5 against the class table (E-iii).')
    ctx.assumptions += ['decoded entry values and the set of lists referenced by arbitrary DIE trees are runtime relations']
    for r, d in (('L-CONF', 'list header / entry case layouts'), ('G-EXH', 'every list-entry kind has a case struct and a translator'),
                 ('G-FLD', 'translators read only fields their case struct defines'), ('G-SIG', 'translator outputs'),
                 ('W-V4', 'pre-v5 list parsers'), ('I-WIDTH', 'format-selected widths are 4/8 bytes'), ('E-i', 'enumeration formulas'),
                 ('E-iii', 'attribute classification'), ('H-CUR', 'cursor discipline'), ('H-YIELD', 'no generator resumes into a relative use'),
                 ('G-LIT', 'enum literals defined'), ('G-OWNER', 'size-dependent facts are read from the unit that owns the data')):
        ctx.rule(r, d)
    ctx.guard('G-OWNER', 'owners', owner.gowner, ctx, w, ('dwarf/ranges.py', 'dwarf/locationlists.py', 'dwarf/dwarfinfo.py', 'dwarf/dwarf_util.py'))
    # rnglistx / loclistx go through _resolve_via_offset_table (rule owned by C04, shared)
    from props import C04
    ctx.rule('G-TRANS', 'list index resolved through the offset table of its own section')
    ctx.guard('G-TRANS', 'offset table', C04.check_offset_table, ctx, w, 'G-TRANS')
    ctx.floor('G-OWNER', 9)
    ctx.guard('L-CONF', 'loclists header', dwconf.check_struct, ctx, w, 'Dwarf_loclists_CU_header', D.LISTS_HEADER)
    ctx.guard('L-CONF', 'rnglists header', dwconf.check_struct, ctx, w, 'Dwarf_rnglists_CU_header', D.LISTS_HEADER)
    ctx.guard('L-CONF', 'entries', check_entries, ctx, w)
    ctx.floor('L-CONF', 1000)
    ctx.guard('G-SIG', 'translators', check_translators, ctx, w)
    ctx.floor('G-SIG', 14)
    ctx.floor('G-FLD', 14)
    ctx.guard('W-V4', 'v4 parsers', check_v4, ctx, w)
    ctx.floor('W-V4', 10)
    ctx.guard('E-i', 'enumeration', check_enum, ctx, w)
    ctx.floor('E-i', 8)
    ctx.guard('E-iii', 'classification', check_classification, ctx, w)
    ctx.floor('E-iii', 300)
    ctx.guard('H-CUR', 'cursor', hrules.run_h, ctx, w, [LL, RG, UT])
    ctx.rule('I-BOUND', 'a stepped index into the list of referenced offsets is bounded by the list before it is used (gaps at the end of a section)')
    ctx.guard('I-BOUND', 'index reads', check_bound, ctx, w)
    ctx.floor('I-BOUND', 2)
    ctx.guard('G-LIT', 'literals', literals.glit, ctx, w, [LL, RG])
    ctx.floor('G-LIT', 50)


def _sorted_walk(fnode, mapname):
    """the loop that yields walks the keys of the map in ascending order: `for k in sorted(M)` / `sorted(M.keys())`, or a list of
    the keys sorted in place before the loop"""
    keys = ('%s' % mapname, '%s.keys()' % mapname, 'list(%s)' % mapname, 'list(%s.keys())' % mapname)
    for lp in ast.walk(fnode):
        if not (isinstance(lp, ast.For) and any(isinstance(y, ast.Yield) for y in ast.walk(lp))):
            continue
        it = lp.iter
        if isinstance(it, ast.Call) and isinstance(it.func, ast.Name) and it.func.id == 'sorted' and len(it.args) == 1 and not it.keywords and U(it.args[0]) in keys:
            return True
        if isinstance(it, ast.Name):
            src = [U(st) for st in ast.walk(fnode) if isinstance(st, ast.stmt)]
            if any(src_st in src for src_st in ('%s = list(%s.keys())' % (it.id, mapname), '%s = list(%s)' % (it.id, mapname))) and '%s.sort()' % it.id in src and \
                    src.index('%s.sort()' % it.id) < src.index(U(lp)):
                return True
    return False


def check_entries(ctx, w):
    for attr, enum_name, rows in (('Dwarf_loclists_entries', 'ENUM_DW_LLE', D.LLE), ('Dwarf_rnglists_entries', 'ENUM_DW_RLE', D.RLE)):
        enum = w.table('dwarf/enums.py', enum_name)
        kinds = sorted(k for k in enum if isinstance(k, str) and k.startswith('DW_'))
        for (le, fmt, asz, ver) in dwconf.CONFIGS_QUICK:
            if ver != 5:
                continue
            st = dwconf.structs_for(w, le, fmt, asz, ver)
            node = layout.struct_attr(w, st, attr)
            ir = dwconf.irb(w).to_ir(node)
            construct = 'dwarf/structs.py:DWARFStructs.' + attr
            lab = dwconf.label(le, fmt, asz, ver)
            if ir[0] != 'repeat_until':
                raise AnalysisError('L-CONF', construct, 'entry list is not a terminated repeat')
            term = ir[1][1].replace(' ', '')
            ctx.ob('L-CONF', construct, lab + ' terminator', term == "obj.entry_type=='%s_end_of_list'" % enum_name[5:].replace('DW_', 'DW_'), got=term,
                   msg='list does not end at the end_of_list entry (which is excluded)')
            sw = dwconf.find_kind(ir, 'switch')
            if len(sw) != 1:
                raise AnalysisError('L-CONF', construct, 'entry kind switch not found')
            for k in kinds:
                ctx.ob('G-EXH', construct, '%s %s' % (k, lab), k in sw[0][3], msg='list-entry kind named by the enum has no case struct (SwitchError on parse)')
                if k not in rows or k not in sw[0][3]:
                    continue
                got = layout.flatten(w, ir[2], {'entry_type': k})
                exp = [('entry_offset', 'offset'), ('entry_type', 'u8')] + rows[k] + [('entry_end_offset', 'offset')]
                dwconf.compare_rows(ctx, 'L-CONF', construct, '%s %s' % (lab, k), got, dwconf.resolve(exp, le, fmt, asz, ver))
            ev = [f for n, f in layout.find_fields(ir) if n == 'entry_length']
            ok = len(ev) == 1 and ev[0][0] == 'value' and ev[0][2][1].replace(' ', '') == 'ctx.entry_end_offset-ctx.entry_offset'
            ctx.ob('L-CONF', construct, lab + ' entry_length = end - start', ok)
            et = [f for n, f in layout.find_fields(ir) if n == 'entry_type' and f[0] == 'enum']
            exp_t = dict((k, v) for k, v in enum.items() if isinstance(k, str) and k != '_default_')
            ctx.ob('L-CONF', construct, lab + ' entry_type enum', len(et) == 1 and et[0][2] == exp_t)
    for (le, fmt, asz, ver) in dwconf.CONFIGS_QUICK:
        if ver != 5 or fmt != 32:
            continue
        st = dwconf.structs_for(w, le, fmt, asz, ver)
        ir = dwconf.irb(w).to_ir(layout.struct_attr(w, st, 'Dwarf_locview_pair'))
        got = layout.flatten(w, ir, {})
        dwconf.compare_rows(ctx, 'L-CONF', 'dwarf/structs.py:DWARFStructs.Dwarf_locview_pair', dwconf.label(le, fmt, asz, ver), got,
                            [('entry_offset', 'offset'), ('begin', 'uleb'), ('end', 'uleb')])


def check_translators(ctx, w):
    for mod, rows, out, enum_name, attr in ((LL, D.LLE, LLE_OUT, 'ENUM_DW_LLE', 'Dwarf_loclists_entries'), (RG, D.RLE, RLE_OUT, 'ENUM_DW_RLE', 'Dwarf_rnglists_entries')):
        env = w.interp.module_env(mod)
        tab = env.vars.get('entry_translate')
        if not isinstance(tab, dict):
            raise AnalysisError('G-SIG', mod + ':entry_translate', 'table not evaluable')
        enum = w.table('dwarf/enums.py', enum_name)
        kinds = sorted(k for k in enum if isinstance(k, str) and k.startswith('DW_') and not k.endswith('end_of_list'))
        construct = mod + ':entry_translate'
        for k in kinds:
            fv = tab.get(k)
            ctx.ob('G-EXH', construct, k, isinstance(fv, FuncV), msg='list-entry kind has no translator (KeyError when a list contains it)')
            if not isinstance(fv, FuncV):
                continue
            node = fv.node
            body = node.body if isinstance(node, ast.Lambda) else None
            fenv = expr.FEnv(node, params=('e', 'cu'))
            if body is None:
                rets = expr.returns_of(node)
                body = rets[0].value if len(rets) == 1 else None
            got = expr.nfs(body, fenv) if body is not None else None
            ctx.ob('G-SIG', construct, k, got == out[k], got=got, expected=out[k],
                   msg='translated entry differs from the encoded fields (start/length -> [start, start+length), indexed -> address table)',
                   sample='%s -> %s' % (k, out[k]))
            # fields read on `e` must be fields of the case struct (+ the common ones)
            reads = set(n.attr for n in ast.walk(node) if isinstance(n, ast.Attribute) and isinstance(n.value, ast.Name) and n.value.id == 'e')
            allowed = set(n for n, a in rows[k]) | {'entry_offset', 'entry_length', 'entry_type', 'entry_end_offset'}
            ctx.ob('G-FLD', construct, k, reads <= allowed, got=sorted(reads - allowed), expected=sorted(allowed),
                   msg='translator reads a field its case struct does not define (AttributeError for every such entry)')
        for k in sorted(set(tab) - set(kinds)):
            ctx.ob('G-EXH', construct, 'key %r is an entry kind' % (k,), False, msg='translator keyed by an undefined kind')
    # get_addr is checked in C04 (G-TRANS); here: v5 list parse uses the table with the unit
    for mod, q, st in ((LL, 'LocationLists._parse_location_list_from_stream_v5', 'Dwarf_loclists_entries'),):
        f = w.model.func(mod, q)
        rets = [expr.nfs(r.value, expr.FEnv(f.node, params=('cu',))) for r in expr.returns_of(f.node)]
        want = 'comp(index(entry_translate,entry_type)(entry,cu),for(entry,struct_parse(%s,stream)))' % st
        ctx.ob('G-SIG', f.construct, 'every parsed entry translated by its kind, in order', len(rets) == 1 and 'entry_translate' in rets[0] and
               'struct_parse(%s,stream)' % st in rets[0] and rets[0].startswith('comp('), got=rets)
    f = w.model.func(RG, 'RangeLists._parse_range_list_from_stream')
    src = U(f.node)
    ctx.ob('G-SIG', f.construct, 'v5: every parsed entry translated by its kind, in order',
           'list((entry_translate[entry.entry_type](entry, cu) for entry in struct_parse(self.structs.Dwarf_rnglists_entries, self.stream)))' in src)
    f = w.model.func(RG, 'RangeLists.translate_v5_entry')
    rets = [U(r.value) for r in expr.returns_of(f.node)]
    ctx.ob('G-SIG', f.construct, 'translate by kind', rets == ['entry_translate[entry.entry_type](entry, cu)'], got=rets)


def check_v4(ctx, w):
    for mod, q, kind in ((LL, 'LocationLists._parse_location_list_from_stream', 'loc'), (RG, 'RangeLists._parse_range_list_from_stream', 'range')):
        f = w.model.func(mod, q)
        env = expr.FEnv(f.node, params=('cu',), inline=False)
        tr = expr.assign_trace(f.node, env)
        ctx.ob('W-V4', f.construct, 'entry offset = tell() before the pair', tr.get('entry_offset') == [('=', 'tell(stream)')], got=tr.get('entry_offset'))
        ctx.ob('W-V4', f.construct, 'pair of address-sized words', tr.get('begin_offset') == [('=', 'struct_parse(the_Dwarf_target_addr,stream)')] and
               tr.get('end_offset') == [('=', 'struct_parse(the_Dwarf_target_addr,stream)')], got=(tr.get('begin_offset'), tr.get('end_offset')))
        # decision over one iteration, read off the paths: (0, 0) leaves the loop with nothing kept; otherwise (max address, x)
        # keeps a base-address entry with base x; otherwise an entry of the list's kind is kept
        lps = [n for n in ast.walk(f.node) if isinstance(n, ast.While)]
        ok = len(lps) == 1
        seen = set()
        why = None
        for p in (paths.enum_paths(lps[0].body) if ok else []):
            facts = expr.Facts(expr.CP(expr.cond_str(t, env), pol) for t, pol in p.conds())
            if facts.contradiction:
                continue
            stm = [U(x) for x in p.stmts()]
            kept = [x for x in stm if '.append(' in x or 'Entry(' in x]
            end0 = facts.truth('begin_offset == 0 and end_offset == 0', env)
            mx = facts.get(expr.spec_cond('begin_offset == _max_addr'))
            if end0 is True:
                seen.add('end')
                good = not kept and p.end[0] in ('break', 'return')
            elif end0 is False and mx is True:
                seen.add('base')
                good = len([x for x in kept if 'BaseAddressEntry(' in x and 'base_address=end_offset' in x]) == 1 and p.end[0] == 'fall' and \
                    not any(('LocationEntry(' in x or 'RangeEntry(' in x) for x in kept)
            elif end0 is False and mx is False:
                seen.add('entry')
                good = any((('LocationEntry(' if kind == 'loc' else 'RangeEntry(') in x) for x in kept) and not any('BaseAddressEntry(' in x for x in kept) and \
                    p.end[0] == 'fall'
            else:
                good = False
            if not good:
                ok, why = False, (dict(facts), kept, p.end[0])
        ok = ok and seen == {'end', 'base', 'entry'}
        ctx.ob('W-V4', f.construct, '(0,0) ends; (max address, x) selects base x; else entry', ok, got=why or sorted(seen),
               msg='list terminator / base-selection sentinel handling differs from DWARF §2.6.2 / §2.17.3')
        if kind == 'loc':
            ctx.ob('W-V4', f.construct, 'u16 expression length then that many bytes',
                   tr.get('expr_len') == [('=', 'struct_parse(the_Dwarf_uint16,stream)')] and
                   tr.get('loc_expr') == [('=', 'comp(struct_parse(the_Dwarf_uint8,stream),for(i,range(expr_len)))')], got=(tr.get('expr_len'), tr.get('loc_expr')))
            ctx.ob('W-V4', f.construct, 'entry length = tell() - entry offset (both kinds)',
                   tr.get('entry_length') == [('=', expr.spec_nf('tell(stream) - entry_offset')), ('=', expr.spec_nf('tell(stream) - entry_offset'))], got=tr.get('entry_length'))
            mk = [c for c in ast.walk(f.node) if isinstance(c, ast.Call) and dispatch.callee_name(c) == 'LocationEntry']
            kw = dict((k.arg, expr.nfs(k.value, env)) for k in mk[0].keywords) if mk else None
            ctx.ob('W-V4', f.construct, 'entry fields', kw == {'entry_offset': 'entry_offset', 'entry_length': 'entry_length', 'begin_offset': 'begin_offset',
                                                              'end_offset': 'end_offset', 'loc_expr': 'loc_expr', 'is_absolute': '0'}, got=kw)
        else:
            mk = [c for c in ast.walk(f.node) if isinstance(c, ast.Call) and dispatch.callee_name(c) == 'RangeEntry']
            kw = dict((k.arg, expr.nfs(k.value, env)) for k in mk[0].keywords) if mk else None
            ctx.ob('W-V4', f.construct, 'entry fields', kw == {'entry_offset': 'entry_offset', 'entry_length': expr.spec_nf('tell(stream) - entry_offset'),
                                                              'begin_offset': 'begin_offset', 'end_offset': 'end_offset', 'is_absolute': '0'}, got=kw)
    for mod, cls in ((LL, 'LocationLists'), (RG, 'RangeLists')):
        f = w.model.func(mod, cls + '.__init__')
        tr = expr.assign_trace(f.node, expr.FEnv(f.node, params=('stream', 'structs', 'version', 'dwarfinfo'), inline=False))
        ctx.ob('W-V4', f.construct, 'max address = 2^(8*address_size) - 1', tr.get('self._max_addr') == [('=', expr.spec_nf('2 ** (address_size * 8) - 1'))],
               got=tr.get('self._max_addr'), msg='base-selection sentinel is not the largest address of the unit\'s address size')
    f = w.model.func(LL, 'LocationLists.get_location_list_at_offset')
    env = expr.FEnv(f.node, params=('offset', 'die'))
    ops = [o.t() for o in streams.func_ops(f.node, env)]
    ctx.ob('W-V4', f.construct, 'absolute seek to the list offset', ops == [('seek', 'stream', 'offset', 'SEEK_SET')], got=ops)
    rr = expr.return_rows(f.node, env)
    v5 = expr.spec_cond('version >= 5')
    by = {}
    for conds, out in rr:
        by.setdefault(expr.Facts(conds).get(v5), set()).add(out)
    ctx.ob('W-V4', f.construct, 'v5 parser with the DIE\'s unit iff version >= 5',
           by == {True: {'_parse_location_list_from_stream_v5(self,cu)'}, False: {'_parse_location_list_from_stream(self)'}}, got=rr)
    f = w.model.func(RG, 'RangeLists.get_range_list_at_offset')
    env = expr.FEnv(f.node, params=('offset', 'cu'))
    ops = [o.t() for o in streams.func_ops(f.node, env)]
    ctx.ob('W-V4', f.construct, 'absolute seek to the list offset', ops == [('seek', 'stream', 'offset', 'SEEK_SET')], got=ops)
    f = w.model.func(RG, 'RangeLists.get_range_list_at_offset_ex')
    ops = [o.t() for o in streams.func_ops(f.node, expr.FEnv(f.node, params=('offset',)))]
    ctx.ob('W-V4', f.construct, 'raw v5 list parsed at the offset', ops == [('parse', 'stream', 'Dwarf_rnglists_entries', 'offset')], got=ops)
    for mod, cls, a, b, meth in ((LL, 'LocationListsPair', '_loclists', '_loc', 'get_location_list_at_offset'), (RG, 'RangeListsPair', '_rnglists', '_ranges', 'get_range_list_at_offset')):
        f = w.model.func(mod, cls + '.' + meth)
        # which of the pair answers, by unit version, read off the returning paths (a conditional expression, an if statement
        # or early returns are the same decision): the receiver of the delegated call is the v5 object iff version >= 5
        fenv = expr.FEnv(f.node)
        by = {}
        for conds, out in expr.return_rows(f.node, fenv):
            by.setdefault(expr.Facts(conds).get(expr.spec_cond('version >= 5')), set()).add(out)
        flat = dict((k, ' '.join(sorted(v))) for k, v in by.items())
        ok = set(flat) <= {True, False, None} and \
            ((True in flat and a in flat[True] and b not in flat[True] and b in flat.get(False, '') and a not in flat.get(False, '')) or
             (None in flat and expr.spec_nf('%s if version >= 5 else %s' % (a, b)) in flat[None]))
        ctx.ob('W-V4', f.construct, 'v5 section iff unit version >= 5', ok, got=flat)


def check_enum(ctx, w):
    f = w.model.func(UT, '_iter_CUs_in_section')
    env = expr.FEnv(f.node, params=('stream', 'structs', 'parser'), inline=False)
    tr = expr.assign_trace(f.node, env)
    ctx.ob('E-i', f.construct, 'next block = offset_after_length + unit_length', tr.get('offset') == [('=', '0'), ('=', expr.spec_nf('offset_after_length + unit_length'))],
           got=tr.get('offset'))
    ctx.ob('I-WIDTH', f.construct, 'offset entries u64 iff 64-bit format else u32', tr.get('offset_parser') == [('=', expr.spec_nf('Dwarf_uint64 if is64 else Dwarf_uint32'))],
           got=tr.get('offset_parser'), msg='offset-table entry width must follow the DWARF format of the block')
    ops = [o.t() for o in streams.func_ops(f.node, env) if o.kind == 'parse']
    ctx.ob('E-i', f.construct, 'header at offset; offsets array right after it', ops == [('parse', 'stream', 'parser', 'offset'),
           ('parse', 'stream', "Array(offset_count,offset_parser(''))", None)], got=ops)
    whiles = [n for n in ast.walk(f.node) if isinstance(n, ast.While)]
    ctx.ob('E-i', f.construct, 'until the end of the section', len(whiles) == 1 and expr.cond_str(whiles[0].test, env) == expr.spec_cond('offset < endpos'))
    f = w.model.func(RG, 'RangeLists.iter_CU_range_lists_ex')
    env = expr.FEnv(f.node, params=('cu',), inline=False)
    seeks = [o.t() for o in streams.func_ops(f.node, env) if o.kind in ('seek', 'parse') and o.args and o.args[-1] not in (None,)]
    src = U(f.node)
    start_ok = expr.spec_nf('offset_table_offset + (8 if is64 else 4) * offset_count') in [expr.nfs(n, env) for n in ast.walk(f.node) if isinstance(n, ast.BinOp)]
    ctx.ob('I-WIDTH', f.construct, 'lists start after offset_count entries of 8/4 bytes', start_ok,
           got=[expr.nfs(n, env) for n in ast.walk(f.node) if isinstance(n, ast.BinOp) and 'offset_count' in U(n)][:1],
           expected=expr.spec_nf('offset_table_offset + (8 if is64 else 4) * offset_count'),
           msg='offset-table entry size used as a byte multiplier must be 8 (64-bit DWARF) or 4, as in _iter_CUs_in_section')
    end_ok = expr.spec_nf('offset_after_length + unit_length') in [expr.nfs(n, env) for n in ast.walk(f.node) if isinstance(n, ast.BinOp)]
    ctx.ob('E-i', f.construct, 'block ends at offset_after_length + unit_length', end_ok)
    ctx.ob('E-i', f.construct, 'raw v5 lists', 'struct_parse(self.structs.Dwarf_rnglists_entries, stream' in src)
    f = w.model.func(RG, 'RangeLists.iter_range_lists')
    src = U(f.node)
    ctx.ob('E-i', f.construct, 'visits the DW_AT_ranges offsets of units of the matching version, sorted',
           "cu_map = {die.attributes['DW_AT_ranges'].value: cu for cu in self._dwarfinfo.iter_CUs() for die in cu.iter_DIEs() "
           "if 'DW_AT_ranges' in die.attributes and (cu['version'] >= 5) == ver5}" in src and _sorted_walk(f.node, 'cu_map') and
           'yield self.get_range_list_at_offset(offset, cu_map[offset])' in src)
    for mod, cls, hdr, di in ((LL, 'LocationLists', 'Dwarf_loclists_CU_header', 'dwarfinfo'), (RG, 'RangeLists', 'Dwarf_rnglists_CU_header', '_dwarfinfo')):
        f = w.model.func(mod, cls + '.iter_CUs')
        rets = [U(r.value) for r in expr.returns_of(f.node)]
        ctx.ob('E-i', f.construct, 'blocks parsed with the section\'s own header struct', rets == ['_iter_CUs_in_section(self.stream, structs, structs.%s)' % hdr], got=rets)
    f = w.model.func(LL, 'LocationLists.iter_location_lists')
    env = expr.FEnv(f.node, inline=False)
    tr = expr.assign_trace(f.node, env)
    ctx.ob('E-i', f.construct, 'block end = offset_after_length + unit_length', tr.get('cu_end_offset') == [('=', expr.spec_nf('offset_after_length + unit_length'))],
           got=tr.get('cu_end_offset'))


def check_classification(ctx, w):
    """Evaluate the four predicates with the analyser's interpreter over attribute x form x version."""
    interp = w.interp
    cv = interp.class_value(w.model.cls('LocationParser'))
    from sa.absint import Obj

    def call(name, attr, ver=None):
        fv = cv.attrs.get(name)
        if not isinstance(fv, FuncV):
            raise AnalysisError('E-iii', LL + ':LocationParser.' + name, 'predicate not found')
        o = Obj(None)
        o.attrs = {'name': attr[0], 'form': attr[1], 'value': 0}
        args = [o] if ver is None else [o, ver]
        return interp.call_func(fv, args, {}, None)
    forms = BLOCKS + CONSTS + ['DW_FORM_exprloc', 'DW_FORM_sec_offset', 'DW_FORM_loclistx', 'DW_FORM_string', 'DW_FORM_strp', 'DW_FORM_flag', 'DW_FORM_ref4',
                               'DW_FORM_addr']
    attrs = LOC_ATTRS + ['DW_AT_upper_bound', 'DW_AT_count', 'DW_AT_const_value', 'DW_AT_name', 'DW_AT_byte_size', 'DW_AT_type']
    n_cells = n_undef = 0
    construct = LL + ':LocationParser'
    for a in attrs:
        for f in forms:
            for ver in (2, 3, 4, 5):
                want = spec_class(a, f, ver)
                if want is None:
                    n_undef += 1
                    continue
                has = call('attribute_has_location', (a, f), ver)
                ex = call('_attribute_has_loc_expr', (a, f), ver)
                ls = call('_attribute_has_loc_list', (a, f), ver)
                if any(isinstance(x, Unknown) for x in (has, ex, ls)):
                    raise AnalysisError('E-iii', construct, 'predicate not evaluable for %s/%s/v%d' % (a, f, ver))
                got = 'none'
                if has:
                    got = 'expr' if ex else ('list' if ls else 'none')
                n_cells += 1
                ctx.ob('E-iii', construct, '%s %s v%d' % (a, f, ver), got == want, got=got, expected=want,
                       msg='attribute classified differently from the DWARF class table',
                       sample='%s in form %s (DWARF v%d) is %s' % (a, f, ver, want))
    ctx.analysed['classification_cells'] = n_cells
    ctx.analysed['classification_undefined_cells'] = n_undef
    f = w.model.func(LL, 'LocationParser.parse_from_attribute')
    env = expr.FEnv(f.node, params=('attr', 'dwarf_version', 'die'))
    rp = [([expr.CP(expr.cond_str(t, env), pol) for t, pol in c], expr.nfs(r, env)) for c, r, p in paths.returns_with_conds(f.node)]
    want = [([('T(attribute_has_location(self,attr,dwarf_version))', True), ('T(_attribute_has_loc_expr(self,attr,dwarf_version))', True)], 'LocationExpr(value)'),
            ([('T(attribute_has_location(self,attr,dwarf_version))', True), ('T(_attribute_has_loc_expr(self,attr,dwarf_version))', False),
              ('T(_attribute_has_loc_list(self,attr,dwarf_version))', True)], 'get_location_list_at_offset(location_lists,value,die)')]
    ctx.ob('E-iii', f.construct, 'expression -> LocationExpr(value); list -> list at value', [r for r in rp if r[1] != 'None'] == want, got=rp)


MUTANTS = [
    ('loclists-unbounded-index', LL, "                    next_offset = (all_offsets[offset_index]\n                                   if offset_index < len(all_offsets)\n                                   else cu_end_offset)",
     "                    next_offset = all_offsets[offset_index]", 'I-BOUND'),
    ('get-addr-container-size', 'dwarf/dwarfinfo.py', "cu_addr_base + addr_index*cu.header.address_size)", "cu_addr_base + addr_index*self.structs.address_size)", 'G-OWNER'),
    ('get-addr-container-width', 'dwarf/dwarfinfo.py', "return struct_parse(cu.structs.the_Dwarf_target_addr, self.debug_addr_sec.stream,", "return struct_parse(self.structs.the_Dwarf_target_addr, self.debug_addr_sec.stream,", 'G-OWNER'),
    ('start-length-addr', 'dwarf/structs.py', "'DW_LLE_start_length'     : Struct('start_length', self.Dwarf_target_addr('start_address'), self.Dwarf_uleb128('length'), cld),",
     "'DW_LLE_start_length'     : Struct('start_length', self.Dwarf_target_addr('start_address'), self.Dwarf_target_addr('length'), cld),", 'L-CONF'),
    ('rle-length-only', RG, "lambda e, cu: RangeEntry(e.entry_offset, e.entry_length, e.start_address, e.start_address + e.length, True),", "lambda e, cu: RangeEntry(e.entry_offset, e.entry_length, e.start_address, e.length, True),", 'G-SIG'),
    ('max-addr', LL, "self._max_addr = 2 ** (self.structs.address_size * 8) - 1\n\n    def get_location_list_at_offset", "self._max_addr = 2 ** (self.structs.address_size * 8)\n\n    def get_location_list_at_offset", 'W-V4'),
    ('expr-len-u8', LL, "                expr_len = struct_parse(\n                    self.structs.the_Dwarf_uint16, self.stream)", "                expr_len = struct_parse(\n                    self.structs.the_Dwarf_uint8, self.stream)", 'W-V4'),
    ('sec-offset-dropped', LL, "attr.form in ('DW_FORM_sec_offset', 'DW_FORM_loclistx')) and", "attr.form in ('DW_FORM_loclistx',)) and", 'E-iii'),
    ('member-loc-v2', LL, "return (((dwarf_version >= 3 and attr.name == 'DW_AT_data_member_location') or", "return (((dwarf_version >= 4 and attr.name == 'DW_AT_data_member_location') or", 'E-iii'),
    ('lle-field', LL, "'DW_LLE_offset_pair'     : lambda e, cu: LocationEntry(e.entry_offset, e.entry_length, e.start_offset, e.end_offset, e.loc_expr, False),", "'DW_LLE_offset_pair'     : lambda e, cu: LocationEntry(e.entry_offset, e.entry_length, e.start_address, e.end_offset, e.loc_expr, False),", 'G-'),
    ('rle-key-dropped', RG, "    'DW_RLE_start_end'    : lambda e, cu: RangeEntry(e.entry_offset, e.entry_length, e.start_address, e.end_address, True),\n", "", 'G-EXH'),
    ('offset-parser-swapped', UT, "offset_parser = structs.Dwarf_uint64 if header.is64 else structs.Dwarf_uint32", "offset_parser = structs.Dwarf_uint32 if header.is64 else structs.Dwarf_uint64", 'I-WIDTH'),
    ('next-block', UT, "offset = header.offset_after_length + header.unit_length", "offset = header.cu_offset + header.unit_length", 'E-i'),
    ('hdr-count-u16', 'dwarf/structs.py', "            self.Dwarf_uint32('offset_count'),\n            StreamOffset('offset_table_offset'))\n\n        cld", "            self.Dwarf_uint16('offset_count'),\n            StreamOffset('offset_table_offset'))\n\n        cld", 'L-CONF'),
    ('base-sel-begin', RG, "lst.append(BaseAddressEntry(entry_offset=entry_offset, base_address=end_offset))", "lst.append(BaseAddressEntry(entry_offset=entry_offset, base_address=begin_offset))", 'W-V4'),
    ('pair-version', LL, "section = self._loclists if die.cu.header.version >= 5 else self._loc", "section = self._loclists if die.cu.header.version > 5 else self._loc", 'W-V4'),
    ('startx-length-2x', LL, "    return LocationEntry(e.entry_offset, e.entry_length, start_offset, start_offset + e.length, e.loc_expr, True)", "    return LocationEntry(e.entry_offset, e.entry_length, start_offset, e.length, e.loc_expr, True)", 'G-SIG'),
    ('cld-u16', 'dwarf/structs.py', "PrefixedArray(self.Dwarf_uint8('loc_expr'), self.the_Dwarf_uleb128)", "PrefixedArray(self.Dwarf_uint8('loc_expr'), self.the_Dwarf_uint16)", 'L-CONF'),
]


BOUND_SAMPLE = """
def walk(all_offsets, end):
    i = 0
    offset = 0
    while offset < end:
        nxt = all_offsets[i]
        if nxt == offset:
            i += 1
        offset = nxt
"""


def check_bound(ctx, w):
    from sa import walks
    hit = walks.unbounded_index_reads(ast.parse(BOUND_SAMPLE).body[0])
    ctx.ob('I-BOUND', 'built-in sample', 'the rule fires on its positive example', [(l, i) for n, l, i in hit] == [('all_offsets', 'i')], got=hit)
    n = 0
    for f in w.model.library_funcs():
        if not any(f.mod.endswith(m) for m in (LL, RG, UT)):
            continue
        n += 1
        for node, lst, idx in walks.unbounded_index_reads(f.node):
            ctx.ob('I-BOUND', f.construct, '%s[%s]' % (lst, idx), False, line=node.lineno, got=U(node),
                   msg='the index is stepped inside the walk and nothing bounds it by len(%s) before this read: when the listed objects run out '
                       'before the extent does (padding or a gap after the last list) the walk ends in IndexError instead of ending' % lst)
    ctx.ob('I-BOUND', 'list modules', 'functions scanned for unbounded stepped index reads', n > 10, sample='%d functions' % n, got=n)
