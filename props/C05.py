"""C05 -- line-number programs execute to the rows the DWARF state machine prescribes.

Decides (DESIGN.md §3 C05): header layouts for versions 2/3, 4, 5; the state machine: per opcode branch the operands
parsed, registers written (formulas in normal form), row emitted or not, clearing after a row, reset after
end_sequence (G-EXH/G-SIG); extent handling; unit<->program wiring and v5 legacy tables.
"""
import ast
from sa.canon import U
from sa.world import get_world
from sa import dwconf, layout, expr, paths, streams, dispatch, literals, hrules
from sa.report import AnalysisError
from spec import dwarf as D

LP = 'dwarf/lineprogram.py'
DI = 'dwarf/dwarfinfo.py'
STRUCT_ATOM = {'the_Dwarf_uleb128': 'uleb', 'the_Dwarf_sleb128': 'sleb', 'the_Dwarf_uint16': 'u16', 'the_Dwarf_uint8': 'u8',
               'the_Dwarf_target_addr': 'addr', 'Dwarf_lineprog_file_entry': 'file_entry', 'the_Dwarf_uint32': 'u32'}

MAXOPS = 'maximum_operations_per_instruction'
ADV = lambda a: {'state.address': [('+=', expr.spec_nf('minimum_instruction_length * ((op_index + (%s)) // %s)' % (a, MAXOPS)))],
                 'state.op_index': [('=', expr.spec_nf('(op_index + (%s)) %% %s' % (a, MAXOPS)))]}

# DWARF 5 §6.2.5.2 standard opcodes: name -> (operands, register writes, emits row)
STANDARD = {
    'DW_LNS_copy': ([], {}, True),
    'DW_LNS_advance_pc': (['uleb'], ADV('operand'), False),
    'DW_LNS_advance_line': (['sleb'], {'state.line': [('+=', 'operand')]}, False),
    'DW_LNS_set_file': (['uleb'], {'state.file': [('=', 'operand')]}, False),
    'DW_LNS_set_column': (['uleb'], {'state.column': [('=', 'operand')]}, False),
    'DW_LNS_negate_stmt': ([], {'state.is_stmt': [('=', '!T(is_stmt)')]}, False),
    'DW_LNS_set_basic_block': ([], {'state.basic_block': [('=', '1')]}, False),
    'DW_LNS_const_add_pc': ([], ADV('(255 - opcode_base) // line_range'), False),
    'DW_LNS_fixed_advance_pc': (['u16'], {'state.address': [('+=', 'operand')], 'state.op_index': [('=', '0')]}, False),
    'DW_LNS_set_prologue_end': ([], {'state.prologue_end': [('=', '1')]}, False),
    'DW_LNS_set_epilogue_begin': ([], {'state.epilogue_begin': [('=', '1')]}, False),
    'DW_LNS_set_isa': (['uleb'], {'state.isa': [('=', 'operand')]}, False),
}
# §6.2.5.3 extended opcodes
EXTENDED = {
    'DW_LNE_end_sequence': ([], {'state.end_sequence': [('=', '1')]}, True),
    'DW_LNE_set_address': (['addr'], {'state.address': [('=', 'operand')], 'state.op_index': [('=', '0')]}, False),
    'DW_LNE_define_file': (['file_entry'], {}, False),
    'DW_LNE_set_discriminator': (['uleb'], {'state.discriminator': [('=', 'operand')]}, False),
}
# §6.2.5.1 special opcode
SPECIAL = {
    'state.address': [('+=', expr.spec_nf('minimum_instruction_length * ((op_index + (opcode - opcode_base) // line_range) // %s)' % MAXOPS))],
    'state.op_index': [('=', expr.spec_nf('(op_index + (opcode - opcode_base) // line_range) %% %s' % MAXOPS))],
    'state.line': [('+=', expr.spec_nf('line_base + (opcode - opcode_base) % line_range'))],
}
INITIAL = {'address': '0', 'file': '1', 'line': '1', 'column': '0', 'op_index': '0', 'is_stmt': 'default_is_stmt', 'basic_block': '0',
           'end_sequence': '0', 'prologue_end': '0', 'epilogue_begin': '0', 'isa': '0', 'discriminator': '0'}


def run(ctx):
    w = get_world(ctx)
    ctx.explanation.append(
        'C05: Dwarf_lineprog_header and file-entry layouts for versions 2-5 x format x byte order (L-CONF); FormattedEntry '
        'parser construction; the state machine: dispatch extraction of the special / extended / standard branches, per '
        'branch the operand structs parsed in order, the register writes in normal form against DWARF 5 §6.2.5 formulas, '
        'row emission and the clearing after a row, reset after end_sequence, unknown opcodes (G-EXH/G-SIG); loop extent and '
        'cursor (W-EXT, H-CUR); unit/program wiring and v5 legacy tables (W-WIRE).')
    ctx.assumptions += ['emitted row values for concrete programs are runtime quantities (not decided)']
    for r, d in (('L-CONF', 'header layout per version'), ('G-EXH', 'every opcode the constants module names has a branch'),
                 ('G-SIG', 'branch effect signature equals the §6.2.5 row'), ('W-ROW', 'row emission helpers'), ('W-EXT', 'program extent and cursor'),
                 ('W-WIRE', 'unit/program wiring and v5 tables'), ('H-CUR', 'cursor discipline')):
        ctx.rule(r, d)
    cases = [{'version': v, 'name': b'x'} for v in (2, 3, 4, 5)]
    for c in cases:
        cfgs = [x for x in dwconf.CONFIGS_QUICK if x[3] == 4 and x[2] == 4]
        ctx.guard('L-CONF', 'lineprog v%d' % c['version'], dwconf.check_struct, ctx, w, 'Dwarf_lineprog_header', D.lineprog_header, (c,), cfgs)
    for named in (True, False):
        cfgs = [x for x in dwconf.CONFIGS_QUICK if x[3] == 4 and x[2] == 4 and x[1] == 32]
        ctx.guard('L-CONF', 'file entry', dwconf.check_struct, ctx, w, 'Dwarf_lineprog_file_entry', D.FILE_ENTRY[named],
                  ({'name': b'x' if named else b''},), cfgs)
    ctx.guard('L-CONF', 'FormattedEntry', check_formatted, ctx, w)
    ctx.floor('L-CONF', 200)
    ctx.guard('G-SIG', 'state machine', check_machine, ctx, w)
    ctx.floor('G-SIG', 40)
    ctx.floor('G-EXH', 16)
    ctx.guard('W-ROW', 'rows', check_rows, ctx, w)
    ctx.floor('W-ROW', 16)
    ctx.guard('W-EXT', 'extent', check_extent, ctx, w)
    ctx.floor('W-EXT', 6)
    ctx.guard('W-WIRE', 'wiring', check_wiring, ctx, w)
    ctx.floor('W-WIRE', 10)
    ctx.guard('H-CUR', 'cursor', hrules.run_h, ctx, w, [LP, DI], only={DI: ('DWARFInfo._parse_line_program', 'DWARFInfo.line_program')})
    # the v5 entry parser is built per header from that header's own format: nothing may be kept on the shared construct
    from props import C10
    ctx.rule('J-SHARED', 'parse-time methods of (shared, cached) constructs write nothing onto the construct')
    ctx.guard('J-SHARED', 'constructs', C10.check_shared, ctx, w)
    ctx.floor('J-SHARED', 7)


def check_formatted(ctx, w):
    f = w.model.func('dwarf/structs.py', 'DWARFStructs._create_lineprog_header')
    src = U(f.node)
    # one field per (content type, form) pair of the entry format, in format order: a comprehension (of any kind) over the
    # format field whose element renames the form parser to the content type; the fields are splatted into one Struct whose
    # parse is the result
    comps = [c for c in ast.walk(f.node) if isinstance(c, (ast.GeneratorExp, ast.ListComp)) and len(c.generators) == 1 and not c.generators[0].ifs]
    good = [c for c in comps if U(c.generators[0].iter) == 'context[self.format_field]' and isinstance(c.generators[0].target, ast.Name) and
            U(c.elt) == 'Rename(%s.content_type, self.structs.Dwarf_dw_form[%s.form])' % (c.generators[0].target.id, c.generators[0].target.id)]
    ok = len(good) == 1 and "Struct('formatted_entry', *fields)" in src and '._parse(stream, context)' in src
    ctx.ob('L-CONF', f.construct, 'v5 entries parsed with the form parser of every format pair, in format order', ok,
           msg='a formatted directory/file entry must consist of one value per (content type, form) pair of the entry format')
    for fld, fmt in (('directories', 'directory_entry_format'), ('file_names', 'file_name_entry_format')):
        ctx.ob('L-CONF', f.construct, '%s use %s' % (fld, fmt), "FormattedEntry('%s', self, '%s')" % (fld, fmt) in src)
    ctx.ob('L-CONF', f.construct, 'entry format pairs: content type ENUM_DW_LNCT, form ENUM_DW_FORM',
           src.count("Enum(self.Dwarf_uleb128('content_type'), **ENUM_DW_LNCT), Enum(self.Dwarf_uleb128('form'), **ENUM_DW_FORM)") == 2)


def _branch_sig(body, env):
    """(parsed struct atoms in order, register/state writes, calls new-state, calls old-state, other side effects)"""
    mod = ast.Module(body=body, type_ignores=[])
    ops = []
    for o in streams.func_ops(mod, env):
        if o.kind == 'parse':
            ops.append(STRUCT_ATOM.get(o.args[0], o.args[0]))
        elif o.kind == 'seek':
            ops.append('seek(%s,%s)' % o.args)
    tr = expr.assign_trace(mod, env)
    writes = dict((k, v) for k, v in tr.items() if k.startswith('state.') or k == 'state')
    calls = [dispatch.callee_name(c) for c in ast.walk(mod) if isinstance(c, ast.Call) and dispatch.callee_name(c) in ('add_entry_new_state', 'add_entry_old_state')]
    other = [U(s) for s in body if isinstance(s, ast.Expr) and isinstance(s.value, ast.Call) and
             dispatch.callee_name(s.value) not in ('add_entry_new_state', 'add_entry_old_state', 'struct_parse', 'dwarf_assert')]
    return ops, writes, calls, other, tr


def check_machine(ctx, w):
    f = w.model.func(LP, 'LineProgram._decode_line_program')
    consts = dict((k, v) for k, v in w.interp.module_env('dwarf/constants.py').vars.items() if isinstance(v, int))
    whiles = [n for n in ast.walk(f.node) if isinstance(n, ast.While)]
    if len(whiles) != 1:
        raise AnalysisError('G-SIG', f.construct, 'decode loop not found')
    loop = whiles[0]
    # local definitions inside branches (operand, adjusted_opcode, ...) are inlined per branch
    top = [s for s in loop.body if isinstance(s, ast.If)]
    if len(top) != 1:
        raise AnalysisError('G-SIG', f.construct, 'opcode dispatch not found')
    t = top[0]
    t1 = expr.cond_str(t.test, expr.FEnv(f.node, inline=False))
    ctx.ob('G-SIG', f.construct, 'special iff opcode >= opcode_base', t1 == expr.spec_cond('opcode >= opcode_base'), got=t1)
    nxt = t.orelse[0] if len(t.orelse) == 1 and isinstance(t.orelse[0], ast.If) else None
    ctx.ob('G-SIG', f.construct, 'extended iff opcode == 0', nxt is not None and expr.cond_str(nxt.test, expr.FEnv(f.node, inline=False)) == expr.spec_cond('opcode == 0'))
    if nxt is None:
        return

    def env_for(body):
        e = expr.FEnv(None)
        # single-assignment locals of the branch
        counts = {}
        vals = {}
        for s in ast.walk(ast.Module(body=body, type_ignores=[])):
            if isinstance(s, ast.Assign) and len(s.targets) == 1 and isinstance(s.targets[0], ast.Name):
                counts[s.targets[0].id] = counts.get(s.targets[0].id, 0) + 1
                vals[s.targets[0].id] = s.value
        for k, c in counts.items():
            if c == 1 and not (isinstance(vals[k], ast.Call) and dispatch.callee_name(vals[k]) == 'struct_parse'):
                e.defs[k] = vals[k]
        return e
    # special
    env = env_for(t.body)
    ops, writes, calls, other, tr = _branch_sig(t.body, env)
    ctx.ob('G-SIG', f.construct, 'special: no operands', ops == [], got=ops)
    for k, v in sorted(SPECIAL.items()):
        ctx.ob('G-SIG', f.construct, 'special: ' + k, writes.get(k) == v, got=writes.get(k), expected=v,
               msg='special opcode arithmetic differs from DWARF 5 §6.2.5.1', sample='special opcode %s %s' % (k, v))
    ctx.ob('G-SIG', f.construct, 'special: no other register', set(writes) == set(SPECIAL), got=sorted(writes))
    ctx.ob('G-SIG', f.construct, 'special: row appended after the registers are updated', calls == ['add_entry_new_state'] and
           isinstance(t.body[-1], ast.Expr) and dispatch.callee_name(t.body[-1].value) == 'add_entry_new_state', got=calls)
    # extended
    pre = [s for s in nxt.body if not isinstance(s, ast.If)]
    ops, _, _, _, tr = _branch_sig(pre, expr.FEnv(None))
    ctx.ob('G-SIG', f.construct, 'extended: ULEB length then u8 opcode', ops == ['uleb', 'u8'] and list(tr) == ['inst_len', 'ex_opcode'], got=(ops, list(tr)))
    chains = dispatch.find_chain(ast.Module(body=nxt.body, type_ignores=[]), dispatch.subject_name('ex_opcode'), consts=consts, min_branches=2)
    _check_chain(ctx, f, chains, EXTENDED, 'DW_LNE_', consts, env_for, extended=True)
    # standard
    std_body = nxt.orelse
    chains = dispatch.find_chain(ast.Module(body=std_body, type_ignores=[]), dispatch.subject_name('opcode'), consts=consts, min_branches=4)
    _check_chain(ctx, f, chains, STANDARD, 'DW_LNS_', consts, env_for, extended=False)


def _check_chain(ctx, f, chains, spec, prefix, consts, env_for, extended):
    if not chains:
        raise AnalysisError('G-SIG', f.construct, '%s dispatch chain not found' % prefix)
    byval = dict((consts[k], k) for k in consts if k.startswith(prefix) and not k.endswith('_user'))
    seen = {}
    else_body = None
    for b in chains[0]:
        if b.is_else:
            else_body = b.body
            continue
        for k in b.keys:
            seen[k] = b
    for name in sorted(k for k in consts if k.startswith(prefix) and not k.endswith('_user')):
        b = seen.get(consts[name])
        ctx.ob('G-EXH', f.construct, name, b is not None, msg='opcode named by the constants module has no branch in the state machine')
        if b is None or name not in spec:
            continue
        want_ops, want_w, want_row = spec[name]
        env = env_for(b.body)
        ops, writes, calls, other, tr = _branch_sig(b.body, env)
        ctx.ob('G-SIG', f.construct, name + ' operands', ops == want_ops, got=ops, expected=want_ops,
               msg='operand kinds differ from DWARF 5 §6.2.5', sample='%s operands %s' % (name, want_ops))
        w2 = dict(writes)
        if name == 'DW_LNE_end_sequence':
            # the reset after the row is checked separately
            reset = w2.pop('state', None)
            ctx.ob('G-SIG', f.construct, name + ' resets every register afterwards', reset == [('=', 'LineState(default_is_stmt)')], got=reset)
            order = [U(s).split('(')[0] for s in b.body]
            ctx.ob('G-SIG', f.construct, name + ' order: set flag, append row, reset', order[-2:] == ['add_entry_new_state', 'state = LineState'] and
                   order[0] == 'state.end_sequence = True', got=order)
        for reg in sorted(want_w):
            ctx.ob('G-SIG', f.construct, '%s register %s' % (name, reg), w2.get(reg) == want_w[reg], got=w2.get(reg), expected=want_w[reg],
                   msg='register update differs from DWARF 5 §6.2.5', sample='%s: %s %s' % (name, reg, want_w[reg]))
        for reg in sorted(set(w2) - set(want_w)):
            ctx.ob('G-SIG', f.construct, '%s unexpected write %s %s' % (name, reg, w2[reg]), False, got=w2[reg], expected='register unchanged',
                   msg='a register the standard leaves unchanged is written (a row must carry the current values of the other registers)')
        if not want_w and not w2:
            ctx.ob('G-SIG', f.construct, name + ' writes no register', True)
        ctx.ob('G-SIG', f.construct, name + ' row', ('add_entry_new_state' in calls) == want_row, got=calls, expected='row' if want_row else 'no row',
               msg='row appended / not appended contrary to DWARF 5 §6.2.5')
        if name == 'DW_LNE_define_file':
            ctx.ob('G-SIG', f.construct, name + ' appends the entry to the header file table', other == ["self['file_entry'].append(operand)"], got=other)
    for v in sorted(set(seen) - set(byval)):
        ctx.note('state machine handles opcode value %r without a constant name (listed)' % (v,))
    if extended:
        ok = else_body is not None and [U(s) for s in else_body] == ['self.stream.seek(inst_len - 1, os.SEEK_CUR)']
        ctx.ob('G-SIG', f.construct, 'unknown extended opcode skipped by its length (len - 1 after the opcode byte)', ok,
               got=[U(s) for s in else_body] if else_body else None)
    else:
        # unknown standard opcode: its ULEB operands are skipped per standard_opcode_lengths (§6.2.4 item 10, §6.2.5.2)
        src = ' '.join(U(s) for s in else_body) if else_body else ''
        ok = 'standard_opcode_lengths' in src and 'the_Dwarf_uleb128' in src and 'opcode - 1' in src and 'dwarf_assert(False' not in src
        ctx.ob('G-SIG', f.construct, 'unknown standard opcode: operands skipped via standard_opcode_lengths[opcode - 1]', ok, got=src[:120],
               msg='a standard opcode the library does not know (opcode_base > 13) must be skipped using the operand counts of the header, not rejected')


def check_rows(ctx, w):
    f = w.model.func(LP, 'LineProgram._decode_line_program.<locals>.add_entry_new_state')
    body = [U(s) for s in f.node.body]
    want = ['entries.append(LineProgramEntry(cmd, is_extended, args, copy.copy(state)))', 'state.discriminator = 0', 'state.basic_block = False',
            'state.prologue_end = False', 'state.epilogue_begin = False']
    ctx.ob('W-ROW', f.construct, 'row = copy of the current registers, appended first', body[:1] == want[:1], got=body[:1])
    for s in want[1:]:
        ctx.ob('W-ROW', f.construct, 'after a row: ' + s, s in body[1:], got=body, msg='register not cleared after a row (DWARF 5 §6.2.5.1 steps 5-8)')
    ctx.ob('W-ROW', f.construct, 'nothing else cleared', len(body) == 5, got=body)
    g = w.model.func(LP, 'LineProgram._decode_line_program.<locals>.add_entry_old_state')
    ctx.ob('W-ROW', g.construct, 'bookkeeping entry carries no state', [U(s) for s in g.node.body] == ['entries.append(LineProgramEntry(cmd, is_extended, args, None))'])
    h = w.model.func(LP, 'LineState.__init__')
    tr = expr.assign_trace(h.node, expr.FEnv(h.node, params=('default_is_stmt',)))
    for reg, v in sorted(INITIAL.items()):
        ctx.ob('W-ROW', h.construct, 'initial ' + reg, tr.get('self.' + reg) == [('=', v)], got=tr.get('self.' + reg), expected=v,
               msg='initial register value differs from DWARF 5 Table 6.4')
    ctx.ob('W-ROW', h.construct, 'exactly the twelve registers', len(tr) == 12, got=sorted(tr))
    k = w.model.func(LP, 'LineProgram._decode_line_program')
    tr = expr.assign_trace(k.node, expr.FEnv(k.node, inline=False))
    ctx.ob('W-ROW', k.construct, 'initial state from default_is_stmt', tr.get('state', [None])[0] == ('=', 'LineState(default_is_stmt)'), got=tr.get('state'))
    ctx.ob('W-ROW', k.construct, 'returns the entries in order', [expr.nfs(r.value) for r in expr.returns_of(k.node)] == ['entries'])


def check_extent(ctx, w):
    f = w.model.func(LP, 'LineProgram._decode_line_program')
    env = expr.FEnv(f.node, inline=False)
    whiles = [n for n in ast.walk(f.node) if isinstance(n, ast.While)]
    loop = whiles[0]
    ctx.ob('W-EXT', f.construct, 'guard offset < program_end_offset', expr.cond_str(loop.test, env) == expr.spec_cond('offset < program_end_offset'))
    tr = expr.assign_trace(f.node, env)
    ctx.ob('W-EXT', f.construct, 'offset from program_start_offset, then tell() after each instruction',
           tr.get('offset') == [('=', 'program_start_offset'), ('=', 'tell(stream)')], got=tr.get('offset'))
    ctx.ob('W-EXT', f.construct, 'opcode byte re-read at offset', U(loop.body[0]).replace('\n', '') ==
           'opcode = struct_parse(self.structs.the_Dwarf_uint8, self.stream, offset)', got=U(loop.body[0]))
    ctx.ob('W-EXT', f.construct, 'offset update is the unconditional last step', U(loop.body[-1]) == 'offset = self.stream.tell()')
    g = w.model.func(LP, 'LineProgram.get_entries')
    tr = expr.assign_trace(g.node, expr.FEnv(g.node))
    ctx.ob('W-EXT', g.construct, 'decoded once, memoised', tr.get('self._decoded_entries') == [('=', '_decode_line_program(self)')] and
           [expr.cond_str(n.test) for n in ast.walk(g.node) if isinstance(n, ast.If)] == [expr.spec_cond('_decoded_entries is None')])
    h = w.model.func(LP, 'LineProgram.__init__')
    tr = expr.assign_trace(h.node, expr.FEnv(h.node, params=('header', 'stream', 'structs', 'program_start_offset', 'program_end_offset'), inline=False))
    ok = tr.get('self.program_start_offset') == [('=', 'program_start_offset')] and tr.get('self.program_end_offset') == [('=', 'program_end_offset')] and \
        tr.get('self.stream') == [('=', 'stream')] and tr.get('self.header') == [('=', 'header')] and tr.get('self.structs') == [('=', 'structs')]
    ctx.ob('W-EXT', h.construct, 'constructor wiring', ok, got=tr)


def check_wiring(ctx, w):
    f = w.model.func(DI, 'DWARFInfo._parse_line_program_at_offset')
    env = expr.FEnv(f.node, params=('offset', 'structs'), inline=False)
    tr = expr.assign_trace(f.node, env)
    ctx.ob('W-WIRE', f.construct, 'header parsed at the offset with the unit structs',
           tr.get('lineprog_header') == [('=', 'struct_parse(Dwarf_lineprog_header,stream,offset)')], got=tr.get('lineprog_header'))
    ctx.ob('W-WIRE', f.construct, 'program end = offset + unit_length + initial length size',
           tr.get('end_offset') == [('=', expr.spec_nf('offset + unit_length + structs.initial_length_field_size()'))], got=tr.get('end_offset'))
    mk = [c for c in ast.walk(f.node) if isinstance(c, ast.Call) and dispatch.callee_name(c) == 'LineProgram']
    kw = dict((k.arg, expr.nfs(k.value, env)) for k in mk[0].keywords) if mk else None
    want = {'header': 'lineprog_header', 'stream': 'stream', 'structs': 'structs', 'program_start_offset': 'tell(stream)', 'program_end_offset': 'end_offset'}
    ctx.ob('W-WIRE', f.construct, 'program starts where the header ended', kw == want, got=kw, expected=want)
    ctx.ob('W-WIRE', f.construct, 'on .debug_line', U(f.node).count('self.debug_line_sec.stream') == 3)
    src = U(f.node)
    ctx.ob('W-WIRE', f.construct, 'cache keyed by offset', 'if offset in self._linetable_cache:' in src and 'self._linetable_cache[offset] = lineprogram' in src)
    # v5 string resolution by form
    g = w.model.func(DI, 'DWARFInfo._parse_line_program_at_offset.<locals>.resolve_strings')
    forms = set(k for k in w.table('dwarf/enums.py', 'ENUM_DW_FORM') if isinstance(k, str))
    chains = dispatch.find_chain(g.node, dispatch.subject_src('field.form'), universe=forms, min_branches=3)
    got = {}
    if chains:
        for b in chains[0]:
            if b.is_else:
                continue
            calls = [U(c.args[2]) for c in ast.walk(ast.Module(body=b.body, type_ignores=[])) if isinstance(c, ast.Call) and dispatch.callee_name(c) == 'replace_value']
            for k in b.keys:
                got.setdefault(k, calls)
    ctx.ob('W-WIRE', g.construct, 'line_strp -> .debug_line_str', got.get('DW_FORM_line_strp') == ['self.get_string_from_linetable'], got=got.get('DW_FORM_line_strp'))
    ctx.ob('W-WIRE', g.construct, 'strp -> .debug_str', got.get('DW_FORM_strp') == ['self.get_string_from_table'], got=got.get('DW_FORM_strp'))
    ctx.ob('W-WIRE', g.construct, 'strp_sup -> supplementary .debug_str', (got.get('DW_FORM_strp_sup') or [None])[0] == 'self.supplementary_dwarfinfo.get_string_from_table',
           got=got.get('DW_FORM_strp_sup'))
    ctx.ob('W-WIRE', f.construct, 'both v5 tables resolved',
           "resolve_strings(lineprog_header, 'directory_entry_format', 'directories')" in src and "resolve_strings(lineprog_header, 'file_name_entry_format', 'file_names')" in src)
    ctx.ob('W-WIRE', f.construct, 'legacy include_directory from DW_LNCT_path', 'lineprog_header.include_directory = tuple((d.DW_LNCT_path for d in lineprog_header.directories))' in src)
    want_map = "Container(**{'name': e.get('DW_LNCT_path'), 'dir_index': e.get('DW_LNCT_directory_index'), 'mtime': e.get('DW_LNCT_timestamp'), 'length': e.get('DW_LNCT_size')})"
    ctx.ob('W-WIRE', f.construct, 'legacy file_entry mapping path/directory_index/timestamp/size', want_map in src and 'for e in lineprog_header.file_names' in src)
    h = w.model.func(DI, 'DWARFInfo.line_program_for_CU')
    henv = expr.FEnv(h.node, params=('CU',))
    rp = [([expr.CP(expr.cond_str(t, henv), pol) for t, pol in c], expr.nfs(r, henv)) for c, r, p in paths.returns_with_conds(h.node)]
    src_h = U(h.node)
    has = expr.spec_cond("'DW_AT_stmt_list' in CU.get_top_DIE().attributes")      # top_DIE is a single-assignment local: inlined by the normal form
    want_rows = [([(has, True)], '_parse_line_program_at_offset(self,value,structs)'), ([(has, False)], 'None')]
    ok = expr.rows(rp) == expr.rows(want_rows) and \
        "self._parse_line_program_at_offset(top_DIE.attributes['DW_AT_stmt_list'].value, CU.structs)" in src_h
    ctx.ob('W-WIRE', h.construct, 'program at the top DIE\'s DW_AT_stmt_list with the unit\'s structs', ok, got=rp)
    ctx.ob('W-WIRE', h.construct, 'top DIE of the given unit', 'top_DIE = CU.get_top_DIE()' in U(h.node))
    for q, sec in (('DWARFInfo.get_string_from_table', 'debug_str_sec'), ('DWARFInfo.get_string_from_linetable', 'debug_line_str_sec')):
        k = w.model.func(DI, q)
        ctx.ob('W-WIRE', k.construct, 'C string at offset in ' + sec, [U(r.value) for r in expr.returns_of(k.node)] ==
               ['parse_cstring_from_stream(self.%s.stream, offset)' % sec])


ST = 'dwarf/structs.py'
MUTANTS = [
    ('line-base-unsigned', ST, "self.Dwarf_int8('line_base'),", "self.Dwarf_uint8('line_base'),", 'L-CONF'),
    ('adv-mod', LP, "operation_advance = adjusted_opcode // self['line_range']", "operation_advance = adjusted_opcode % self['line_range']", 'G-SIG'),
    ('line-floordiv', LP, "line_addend = self['line_base'] + (adjusted_opcode % self['line_range'])", "line_addend = self['line_base'] + (adjusted_opcode // self['line_range'])", 'G-SIG'),
    ('set-column-file', LP, "                    state.column = operand", "                    state.file = operand", 'G-SIG'),
    ('set-file-sleb', LP, "                elif opcode == DW_LNS_set_file:\n                    operand = struct_parse(self.structs.the_Dwarf_uleb128,", "                elif opcode == DW_LNS_set_file:\n                    operand = struct_parse(self.structs.the_Dwarf_sleb128,", 'G-SIG'),
    ('fixed-u8', LP, "                    operand = struct_parse(self.structs.the_Dwarf_uint16,", "                    operand = struct_parse(self.structs.the_Dwarf_uint8,", 'G-SIG'),
    ('reset-dropped', LP, "            state.prologue_end = False\n", "", 'W-ROW'),
    ('skip-len', LP, "self.stream.seek(inst_len - 1, os.SEEK_CUR)", "self.stream.seek(inst_len, os.SEEK_CUR)", 'G-SIG'),
    ('min-inst-dropped', LP, "                address_addend = (\n                    self['minimum_instruction_length'] *\n                        ((state.op_index + operation_advance) //\n                          maximum_operations_per_instruction))\n                state.address += address_addend\n                state.op_index = (state.op_index + operation_advance) % maximum_operations_per_instruction\n                line_addend",
     "                address_addend = (\n                        ((state.op_index + operation_advance) //\n                          maximum_operations_per_instruction))\n                state.address += address_addend\n                state.op_index = (state.op_index + operation_advance) % maximum_operations_per_instruction\n                line_addend", 'G-SIG'),
    ('const-add-254', LP, "adjusted_opcode = 255 - self['opcode_base']", "adjusted_opcode = 254 - self['opcode_base']", 'G-SIG'),
    ('copy-old-state', LP, "                if opcode == DW_LNS_copy:\n                    add_entry_new_state(opcode, [])", "                if opcode == DW_LNS_copy:\n                    add_entry_old_state(opcode, [])", 'G-SIG'),
    ('end-seq-no-reset', LP, "                    # reset state\n                    state = LineState(self.header['default_is_stmt'])\n", "                    # reset state\n", 'G-SIG'),
    ('v4-maxops', ST, "            If(lambda ctx: ctx.version >= 4,\n                self.Dwarf_uint8(\"maximum_operations_per_instruction\"),", "            If(lambda ctx: ctx.version >= 5,\n                self.Dwarf_uint8(\"maximum_operations_per_instruction\"),", 'L-CONF'),
    ('guard-le', LP, "while offset < self.program_end_offset:", "while offset <= self.program_end_offset:", 'W-EXT'),
    ('end-offset', DI, "        end_offset = (  offset + lineprog_header['unit_length'] +\n                        structs.initial_length_field_size())", "        end_offset = (  offset + lineprog_header['unit_length'])", 'W-WIRE'),
    ('line-strp-table', DI, "replace_value(data, field.content_type, self.get_string_from_linetable)", "replace_value(data, field.content_type, self.get_string_from_table)", 'W-WIRE'),
    ('initial-line', LP, "        self.line = 1\n", "        self.line = 0\n", 'W-ROW'),
    ('discriminator-sleb', LP, "                elif ex_opcode == DW_LNE_set_discriminator:\n                    operand = struct_parse(self.structs.the_Dwarf_uleb128,", "                elif ex_opcode == DW_LNE_set_discriminator:\n                    operand = struct_parse(self.structs.the_Dwarf_sleb128,", 'G-SIG'),
    ('stmt-list-cu', DI, "top_DIE.attributes['DW_AT_stmt_list'].value, CU.structs)", "top_DIE.attributes['DW_AT_stmt_list'].value, self.structs)", 'W-WIRE'),
    ('lnct-mtime', DI, "'mtime': e.get('DW_LNCT_timestamp'),", "'mtime': e.get('DW_LNCT_size'),", 'W-WIRE'),
]
