"""C19 -- opening arbitrary bytes fails only with ELFError; header enumeration terminates.

Decides (DESIGN.md §3 C19):
 1. constructor escape set over the call graph from ELFFile.__init__: every explicit raise is an ELFError subclass (K-RAISE),
    asserts are discharged (K-ASSERT), construct parsing only inside struct_parse whose handler also covers an out-of-range
    seek (K-WRAP), no possibly-None result is dereferenced (K-NULL), seeks with file-derived positions are guarded or wrapped
    (K-SEEK);
 2. termination of the enumeration battery: every while / itertools.count loop reachable from it advances a cursor by a
    positive constant lower bound, or performs a consuming bounded read at a strictly advancing position (I-PROG); indexed
    table strides are proven positive or the count is 0 when the table is absent (I-STRIDE0).
Not decided: wall time and allocation (range(N) loops with file-controlled N are bounded by N, not by the file size).
"""
import ast
from sa.canon import U
from sa.world import get_world
from sa import expr, paths, streams, dispatch, walks, hrules, wrap
from sa.model import walk_no_nested
from sa.report import AnalysisError

EF = 'elf/elffile.py'
ROOT = ('elftools/elf/elffile.py', 'ELFFile.__init__')
BATTERY = [
    (EF, 'ELFFile.num_sections'), (EF, 'ELFFile.iter_sections'), (EF, 'ELFFile.get_section'), (EF, 'ELFFile.num_segments'),
    (EF, 'ELFFile.iter_segments'), (EF, 'ELFFile.get_segment'), ('elf/sections.py', 'SymbolTableSection.num_symbols'),
    ('elf/dynamic.py', 'DynamicSegment.num_symbols'), ('elf/hash.py', 'GNUHashTable.get_number_of_symbols'),
    ('elf/hash.py', 'ELFHashTable.get_number_of_symbols'), ('elf/dynamic.py', 'Dynamic.iter_tags'), ('elf/dynamic.py', 'Dynamic.num_tags'),
    ('elf/notes.py', 'iter_notes'), ('elf/sections.py', 'NoteSection.iter_notes'), ('elf/segments.py', 'NoteSegment.iter_notes'),
    ('elf/gnuversions.py', 'GNUVersionSection.iter_versions'), ('elf/gnuversions.py', 'GNUVersionSection._iter_version_auxiliaries'),
]
# asserts on the constructor graph that are discharged by facts established earlier on every path (one symbol, one reason)
ASSERT_EXC = {
    ('elftools/elf/structs.py', 'ELFStructs.__init__', 'elfclass in (32, 64)'):      # canonical form of elfclass == 32 or elfclass == 64 (N22)
        '_identify_file assigns only the constants 32 and 64 to elfclass before ELFStructs is built (checked: K-ASSERT witness)',
}


def reachable(w, cur, roots, stop_mods=('elftools/construct/',)):
    seen = {}
    todo = list(roots)
    while todo:
        f = todo.pop()
        key = (f.mod, f.qual)
        if key in seen or f.mod.startswith(stop_mods):
            continue
        seen[key] = f
        for n in walk_no_nested(f.node):
            if isinstance(n, ast.Call):
                callees, _ = cur.resolve(n, f)
                for g in callees:
                    if (g.mod, g.qual) not in seen:
                        todo.append(g)
            elif isinstance(n, ast.Attribute) and isinstance(n.ctx, ast.Load) and n.attr in cur.properties:
                # property access
                if isinstance(n.value, ast.Name) and n.value.id == 'self' and f.cls is not None:
                    m = f.cls.find_method(n.attr)
                    if m is not None and m in cur.properties.get(n.attr, []):
                        todo.append(m)
        # nested closures
        for (mod, q), g in w.model.funcs.items():
            if mod == f.mod and q.startswith(f.qual + '.<locals>.') and (mod, q) not in seen:
                todo.append(g)
    return seen


def run(ctx):
    w = get_world(ctx)
    cur = hrules.cursor_of(w)
    ctx.explanation.append(
        'C19: call graph from ELFFile.__init__ (MRO/hint based resolution): explicit raises are ELFError subclasses, asserts '
        'discharged, every construct parse goes through struct_parse whose single try covers the seek and the parse and converts '
        'ConstructError and an out-of-range seek, no dereference of a possibly-None result, file-derived seek positions guarded or '
        'wrapped (K rules); call graph from the enumeration battery: every while/count() loop has a progress argument (I-PROG), '
        'table strides proven positive or count 0 without a table (I-STRIDE0).')
    ctx.assumptions += ['implicit exceptions of arithmetic on well-typed parsed integers are not enumerated (TypeError/ZeroDivisionError '
                        'sources other than the K-NULL dereferences are outside the rule set)',
                        'wall time / peak allocation are runtime quantities; range(N) loops are bounded by N']
    for r, d in (('K-RAISE', 'explicit raises on the constructor graph are ELFError subclasses'), ('K-ASSERT', 'asserts on the constructor graph are discharged'),
                 ('K-WRAP', 'construct parsing only through struct_parse; its handler covers ConstructError and out-of-range seeks'),
                 ('K-NULL', 'no dereference of a possibly-None result'), ('K-KEY', 'variable-key lookups on the constructor graph are membership-guarded'), ('K-SEEK', 'file-derived seek positions guarded or wrapped'),
                 ('I-PROG', 'battery loops make progress'), ('I-STRIDE0', 'table strides positive or count 0 without a table')):
        ctx.rule(r, d)
    root = w.model.funcs.get(ROOT)
    if root is None:
        raise AnalysisError('K-RAISE', 'elf/elffile.py:ELFFile.__init__', 'constructor not found')
    ctor = reachable(w, cur, [root])
    ctx.analysed['constructor_graph_functions'] = len(ctor)
    if len(ctor) < 40:
        ctx.error('K-RAISE', 'constructor graph', 'only %d functions reachable (resolution broke?)' % len(ctor))
    ctx.guard('K-RAISE', 'raises', check_raises, ctx, w, ctor)
    ctx.floor('K-RAISE', 4)
    ctx.guard('K-WRAP', 'wrapping', check_wrap, ctx, w, ctor)
    ctx.floor('K-WRAP', 6)
    battery = reachable(w, cur, [w.model.func(m, q) for m, q in BATTERY])
    ctx.analysed['battery_graph_functions'] = len(battery)
    # K-NULL is a constructor rule only: inside the battery a TypeError still terminates the enumeration (clause 2 asks for
    # termination by returning *or raising*), so the battery-only dereferences (num_sections, get_section, _get_linked_*) are
    # not violations of C19 and are not reported.
    ctx.guard('K-NULL', 'nullable', check_null, ctx, w, ctor)
    ctx.floor('K-NULL', 2)
    ctx.guard('K-KEY', 'keys', check_keys, ctx, w, ctor)
    ctx.guard('K-KEY', 'raw reads', check_raw_index, ctx, w, ctor)
    ctx.floor('K-KEY', 1)
    ctx.guard('K-SEEK', 'seeks', check_seek, ctx, w, ctor)
    ctx.floor('K-SEEK', 3)
    ctx.guard('I-PROG', 'loops', check_loops, ctx, w, battery)
    ctx.floor('I-PROG', 8)
    ctx.guard('I-STRIDE0', 'strides', check_strides, ctx, w)
    ctx.floor('I-STRIDE0', 8)


def _is_elferror(w, name):
    lst = w.model.classes.get(name, [])
    return len(lst) >= 1 and all(c.is_subclass_of('ELFError') for c in lst)


def check_raises(ctx, w, graph):
    n_assert = 0
    for key, f in sorted(graph.items()):
        for n in walk_no_nested(f.node):
            if isinstance(n, ast.Raise):
                if n.exc is None:
                    continue
                cname = None
                e = n.exc
                if isinstance(e, ast.Call):
                    e = e.func
                if isinstance(e, ast.Name):
                    cname = e.id
                elif isinstance(e, ast.Attribute):
                    cname = e.attr
                if cname == 'exception_type':       # _assert_with_exception(cond, msg, exception_type): checked at its callers
                    continue
                ctx.ob('K-RAISE', f.construct, 'raise %s' % cname, cname is not None and _is_elferror(w, cname), got=cname, line=n.lineno,
                       msg='the constructor can fail with an exception that is not an ELFError', sample='%s raises %s (ELFError subclass)' % (f.construct, cname))
            elif isinstance(n, ast.Assert):
                n_assert += 1
                t = U(n.test)
                k = (f.mod, f.qual, t)
                if k in ASSERT_EXC:
                    ok = _elfclass_witness(w)
                    ctx.ob('K-ASSERT', f.construct, 'assert %s discharged' % t, ok, msg='the fact that discharges this assert no longer holds', line=n.lineno)
                else:
                    ctx.ob('K-ASSERT', f.construct, 'assert %s' % t[:60], False, line=n.lineno,
                           msg='an assert on the constructor path raises AssertionError (not ELFError) when it fails')
    # helpers raising with a caller-supplied type: elf_assert -> ELFError, dwarf_assert -> DWARFError
    helper_used = False
    for q, exc in (('elf_assert', 'ELFError'), ('dwarf_assert', 'DWARFError')):
        f = w.model.func('common/utils.py', q)
        body = [U(s) for s in f.node.body if not (isinstance(s, ast.Expr) and isinstance(s.value, ast.Constant))]
        via_helper = body == ['_assert_with_exception(cond, msg, %s)' % exc]
        direct = body == ['if not cond:\n    raise %s(msg)' % exc]        # the same written in place
        helper_used = helper_used or via_helper
        ctx.ob('K-RAISE', f.construct, 'raises ' + exc, (via_helper or direct) and (exc != 'ELFError' or _is_elferror(w, exc)), got=body)
    if helper_used:
        f = w.model.func('common/utils.py', '_assert_with_exception')
        ctx.ob('K-RAISE', f.construct, 'raises the given type iff the condition is false',
               [U(s) for s in f.node.body] == ['if not cond:\n    raise exception_type(msg)'])
    else:
        ctx.ob('K-RAISE', 'common/utils.py', 'assert helpers raise in place', True)
    for cn in ('ELFParseError', 'ELFRelocationError', 'ELFCompressionError'):
        ctx.ob('K-RAISE', 'common/exceptions.py:' + cn, 'subclass of ELFError', _is_elferror(w, cn))


def _elfclass_witness(w):
    f = w.model.func(EF, 'ELFFile._identify_file')
    vals = [U(s.value) for s in ast.walk(f.node) if isinstance(s, ast.Assign) and U(s.targets[0]) == 'self.elfclass']
    init = w.model.func(EF, 'ELFFile.__init__')
    src = U(init.node)
    return sorted(vals) == ['32', '64'] and src.index('self._identify_file()') < src.index('ELFStructs(') and \
        'elfclass=self.elfclass' in src


def check_wrap(ctx, w, graph):
    f = w.model.func('common/utils.py', 'struct_parse')
    facts = wrap.wrap_facts(f.node)
    ctx.ob('K-WRAP', f.construct, 'parse inside a try, result returned', facts['parse_is_parse_stream_of_args'] and facts['returns_parse_result'], got=facts)
    ctx.ob('K-WRAP', f.construct, 'ConstructError converted to ELFParseError, no handler swallows', facts['parse_construct_error_converted'] and facts['no_handler_swallows'], got=facts)
    ctx.ob('K-WRAP', f.construct, 'seek to the given position precedes the parse', facts['seek_is_absolute_to_position'] and facts['seek_iff_position_given'], got=facts)
    ctx.ob('K-WRAP', f.construct, 'out-of-range seek (OverflowError) converted to ELFParseError', 'OverflowError' in facts['seek_errors_converted'], got=facts['seek_errors_converted'],
           msg='a position field of 2^63 or more makes BytesIO.seek raise OverflowError: it must surface as the library\'s parse error')
    for cn in ('FieldError', 'ArrayError', 'AdaptationError', 'MappingError', 'RangeError', 'SwitchError', 'SizeofError', 'PaddingError', 'TerminatorError', 'OverflowError'):
        lst = [c for c in w.model.classes.get(cn, []) if c.mod.startswith('elftools/construct/')]
        if not lst:
            continue
        ctx.ob('K-WRAP', 'construct:' + cn, 'derives from ConstructError', all(c.is_subclass_of('ConstructError') for c in lst),
               msg='a primitive error class outside the ConstructError hierarchy escapes struct_parse unwrapped')
    # no direct construct parsing outside struct_parse on the constructor graph
    n = 0
    for key, g in sorted(graph.items()):
        if key == (f.mod, f.qual):
            continue
        for c in walk_no_nested(g.node):
            if isinstance(c, ast.Call) and isinstance(c.func, ast.Attribute) and c.func.attr in ('parse', 'parse_stream', '_parse') and \
                    not (isinstance(c.func.value, ast.Name) and c.func.value.id in w.model.classes):
                # inside a try that converts ConstructError?
                protected = False
                for t in ast.walk(g.node):
                    if isinstance(t, ast.Try) and paths.contains_node(ast.Module(body=t.body, type_ignores=[]), c) and \
                            any('ConstructError' in U(h.type) and 'ELFParseError' in U(h) for h in t.handlers if h.type is not None):
                        protected = True
                n += 1
                ctx.ob('K-WRAP', g.construct, 'construct parse %s wrapped' % U(c.func)[:40], protected, line=c.lineno,
                       msg='a construct parse outside struct_parse lets ConstructError escape the constructor')
    ctx.analysed['unwrapped_parse_sites_on_ctor_graph'] = n
    if n == 0:
        ctx.ob('K-WRAP', 'constructor graph', 'no construct parse outside struct_parse', True)


def _nullable_funcs(w, graph):
    """functions of the graph with an explicit `return None` path and another value-returning path"""
    out = {}
    for key, f in graph.items():
        rets = [n for n in walk_no_nested(f.node) if isinstance(n, ast.Return)]
        none = [r for r in rets if r.value is None or (isinstance(r.value, ast.Constant) and r.value.value is None)]
        val = [r for r in rets if r not in none and not (isinstance(r.value, ast.IfExp) and False)]
        if none and val and not f.is_generator():
            out[f.name] = f
    return out


def check_null(ctx, w, graph):
    nullable = _nullable_funcs(w, graph)
    ctx.analysed['nullable_functions'] = sorted(nullable)
    n_sites = 0
    for key, f in sorted(graph.items()):
        env = expr.FEnv(f.node, inline=False)
        for n in walk_no_nested(f.node):
            # direct dereference of a nullable call
            base = None
            if isinstance(n, (ast.Subscript, ast.Attribute)) and isinstance(n.value, ast.Call):
                cn = dispatch.callee_name(n.value)
                if cn and cn.startswith('self.') and cn[5:] in nullable:
                    base = cn[5:]
            if base:
                n_sites += 1
                ctx.ob('K-NULL', f.construct, 'direct dereference of %s(...)' % base, False, line=n.lineno,
                       msg='%s returns None on one of its paths (another caller tests for it) and this call site subscripts the result: TypeError' % base)
        # variables assigned from a nullable call and dereferenced without passing a None test
        for st in walk_no_nested(f.node):
            if isinstance(st, ast.Assign) and len(st.targets) == 1 and isinstance(st.targets[0], ast.Name) and isinstance(st.value, ast.Call):
                cn = dispatch.callee_name(st.value)
                if not (cn and cn.startswith('self.') and cn[5:] in nullable):
                    continue
                var = st.targets[0].id
                n_sites += 1
                ok = True
                bad_line = None
                for p in paths.func_paths(f.node):
                    seen_assign = False
                    tested = False
                    for ev in p.events:
                        node = ev[1] if ev[0] in ('stmt', 'cond') else None
                        if node is st:
                            seen_assign = True
                            continue
                        if not seen_assign or node is None:
                            continue
                        if ev[0] == 'cond':
                            c = expr.cond_str(node, env)
                            if c in (expr.spec_cond('%s is None' % var), expr.spec_cond('%s is not None' % var), 'T(%s)' % var, '!T(%s)' % var):
                                tested = True
                        if not tested:
                            for x in ast.walk(node):
                                if isinstance(x, (ast.Subscript, ast.Attribute)) and isinstance(x.value, ast.Name) and x.value.id == var and \
                                        not (ev[0] == 'cond'):
                                    ok = False
                                    bad_line = x.lineno
                                # handed to a callee (constructor, helper) that will dereference it
                                if isinstance(x, ast.Call) and ev[0] != 'cond' and \
                                        any(isinstance(a, ast.Name) and a.id == var for a in list(x.args) + [k.value for k in x.keywords]):
                                    ok = False
                                    bad_line = x.lineno
                ctx.ob('K-NULL', f.construct, '%s = %s(...) tested before use' % (var, cn[5:]), ok, line=bad_line or st.lineno,
                       msg='the result of a function that may return None is dereferenced on a path without a None test',
                       sample='%s: %s checked for None before it is used' % (f.construct, var))
    if n_sites == 0:
        ctx.error('K-NULL', 'graph', 'no call site of a nullable function found (anchor vanished)')


def check_seek(ctx, w, graph):
    """Positions that come from file contents: guarded against stream_len on the path, or passed to struct_parse /
    parse_cstring_from_stream (wrapped, K-WRAP).  A bare stream.seek(x) with a file-derived x needs a guard."""
    n = 0
    for key, f in sorted(graph.items()):
        if f.mod.endswith('common/utils.py'):
            continue
        env = expr.FEnv(f.node, inline=False)
        for c in walk_no_nested(f.node):
            if isinstance(c, ast.Call) and isinstance(c.func, ast.Attribute) and c.func.attr == 'seek' and c.args:
                a = c.args[0]
                tainted = any(isinstance(x, ast.Subscript) and isinstance(x.slice, ast.Constant) and isinstance(x.slice.value, str) for x in ast.walk(a)) or \
                    any(isinstance(x, ast.Call) for x in ast.walk(a))
                n += 1
                if not tainted:
                    ctx.ob('K-SEEK', f.construct, 'seek(%s) constant' % U(a)[:30], True)
                    continue
                guarded = False
                for p in paths.paths_reaching(f.node, c):
                    for t, pol in p.conds():
                        if 'stream_len' in U(t):
                            guarded = True
                ctx.ob('K-SEEK', f.construct, 'seek(%s) guarded by the stream length' % U(a)[:40], guarded, line=c.lineno,
                       msg='a seek to a position taken from file contents without a bound raises OverflowError/ValueError for huge values')
            elif isinstance(c, ast.Call) and isinstance(c.func, ast.Name) and c.func.id in ('struct_parse', 'parse_cstring_from_stream'):
                n += 1
                ctx.ob('K-SEEK', f.construct, '%s position wrapped' % c.func.id, True, sample='%s: position handed to %s (seek inside its try)' % (f.construct, c.func.id))
    g = w.model.func('common/utils.py', 'parse_cstring_from_stream')
    ctx.analysed['seek_sites_on_ctor_graph'] = n
    # _get_section_header: bound test before the parse
    h = w.model.func(EF, 'ELFFile._get_section_header')
    henv = expr.FEnv(h.node, params=('n',), inline=False)
    rp = paths.returns_with_conds(h.node)
    ok = any([expr.CP(expr.cond_str(t, henv), pol) for t, pol in c] == [expr.CP(expr.spec_cond('stream_pos > stream_len'), True)] and
             (r is None or expr.nfs(r, henv) == 'None') for c, r, p in rp)
    ctx.ob('K-SEEK', h.construct, 'header position beyond the file -> None (no parse)', ok)
    init = w.model.func(EF, 'ELFFile.__init__')
    src = U(init.node)
    ctx.ob('K-SEEK', init.construct, 'stream length measured first', 'self.stream.seek(0, io.SEEK_END)\n    self.stream_len = self.stream.tell()' in src.replace('        ', '    '))


def check_keys(ctx, w, graph):
    """x[k] with a non-constant k in a constructor-graph function: KeyError/IndexError unless `k in x` holds on the path."""
    for key, f in sorted(graph.items()):
        env = expr.FEnv(f.node, inline=False)
        for n in walk_no_nested(f.node):
            if isinstance(n, ast.Subscript) and isinstance(n.ctx, ast.Load) and not isinstance(n.slice, (ast.Constant, ast.Slice)):
                want = expr.spec_cond('%s in %s' % (U(n.slice), U(n.value)))
                ok = True
                reach = paths.paths_reaching(f.node, n)
                for p in reach:
                    if (want, True) not in [expr.CP(expr.cond_str(t, env), pol) for t, pol in p.conds()]:
                        ok = False
                ctx.ob('K-KEY', f.construct, '%s guarded by a membership test' % U(n)[:50], ok and bool(reach), line=n.lineno,
                       msg='a lookup keyed by a value parsed from the file raises KeyError/IndexError from the constructor',
                       sample='%s: %s under `%s in %s`' % (f.construct, U(n)[:40], U(n.slice), U(n.value)))


def check_raw_index(ctx, w, graph):
    """bytes returned by stream.read(n) may be shorter than n (truncated file): on the constructor graph an element subscript of such a value
    (data[4]; not a slice, which cannot fail) raises IndexError unless a length test on that value holds on every path to it."""
    n_sites = 0
    for key, f in sorted(graph.items()):
        raw = set()
        for st in walk_no_nested(f.node):
            if isinstance(st, ast.Assign) and len(st.targets) == 1 and isinstance(st.targets[0], ast.Name) and isinstance(st.value, ast.Call) and \
                    isinstance(st.value.func, ast.Attribute) and st.value.func.attr == 'read':
                raw.add(st.targets[0].id)
        for n in walk_no_nested(f.node):
            if isinstance(n, ast.Subscript) and isinstance(n.ctx, ast.Load) and not isinstance(n.slice, ast.Slice) and \
                    ((isinstance(n.value, ast.Name) and n.value.id in raw) or
                     (isinstance(n.value, ast.Call) and isinstance(n.value.func, ast.Attribute) and n.value.func.attr == 'read')):
                n_sites += 1
                name = n.value.id if isinstance(n.value, ast.Name) else None
                ok = name is not None
                reach = paths.paths_reaching(f.node, n)
                for p in reach:
                    if not any(('len(%s)' % name) in U(t) for t, pol in p.conds()):
                        ok = False
                ctx.ob('K-KEY', f.construct, '%s: element of bytes read from the file, under a length test' % U(n)[:40], ok and bool(reach), line=n.lineno,
                       msg='the file may end inside this read: indexing the short result raises IndexError from the constructor instead of ELFError')
    ctx.analysed['raw_read_index_sites_on_ctor_graph'] = n_sites


UNSIGNED_CTORS = ('Elf_byte', 'Elf_half', 'Elf_word', 'Elf_word64', 'Elf_xword', 'Elf_addr', 'Elf_offset')
SIGNED_CTORS = ('Elf_sword', 'Elf_sxword')


def _field_signs(w):
    """field name -> set of primitive constructor names it is declared with in elf/structs.py"""
    out = {}
    t = w.model.tree('elf/structs.py')
    for c in ast.walk(t):
        if isinstance(c, ast.Call) and isinstance(c.func, ast.Attribute) and c.func.attr in UNSIGNED_CTORS + SIGNED_CTORS and c.args and \
                isinstance(c.args[0], ast.Constant) and isinstance(c.args[0].value, str):
            out.setdefault(c.args[0].value, set()).add(c.func.attr)
    return out


class LB(object):
    """Integer lower bounds of advance expressions: constants, sizeof() >= 1, unsigned parsed fields >= 0,
    roundup(x, k) >= x, sums, products of non-negative factors, conditional expressions (min)."""
    def __init__(self, w, fnode):
        self.signs = _field_signs(w)
        self.assigns = {}
        for st in ast.walk(fnode):
            if isinstance(st, ast.Assign) and len(st.targets) == 1 and isinstance(st.targets[0], ast.Name):
                self.assigns.setdefault(st.targets[0].id, []).append(st.value)
        self.w = w
        roundup = w.model.func('common/utils.py', 'roundup')
        self.roundup_ok = [U(s) for s in roundup.node.body if not (isinstance(s, ast.Expr) and isinstance(s.value, ast.Constant))] == \
            ['return (num - 1 | (1 << bits) - 1) + 1']

    def field(self, name):
        kinds = self.signs.get(name)
        if kinds and all(k in UNSIGNED_CTORS for k in kinds):
            return 0
        return None

    def of(self, n, depth=0):
        if depth > 6:
            return None
        if isinstance(n, ast.Constant) and isinstance(n.value, int) and not isinstance(n.value, bool):
            return n.value
        if isinstance(n, ast.Call) and isinstance(n.func, ast.Attribute) and n.func.attr == 'sizeof':
            return 1
        if isinstance(n, ast.Subscript) and isinstance(n.slice, ast.Constant) and isinstance(n.slice.value, str):
            return self.field(n.slice.value)
        if isinstance(n, ast.Attribute) and not (isinstance(n.value, ast.Name) and n.value.id == 'self'):
            return self.field(n.attr)
        if isinstance(n, ast.Attribute) and n.attr in ('_wordsize', '_xwordsize', '_tagsize'):
            return 1        # assigned from sizeof() in the constructors (checked by I-STRIDE0 for _tagsize, C03/C09 for the word sizes)
        if isinstance(n, ast.Name):
            vals = self.assigns.get(n.id)
            if vals and len(vals) == 1:
                return self.of(vals[0], depth + 1)
            return None
        if isinstance(n, ast.BinOp) and isinstance(n.op, ast.Add):
            a, b = self.of(n.left, depth + 1), self.of(n.right, depth + 1)
            return None if a is None or b is None else a + b
        if isinstance(n, ast.BinOp) and isinstance(n.op, ast.Mult):
            a, b = self.of(n.left, depth + 1), self.of(n.right, depth + 1)
            return None if a is None or b is None or a < 0 or b < 0 else a * b
        if isinstance(n, ast.IfExp):
            a, b = self.of(n.body, depth + 1), self.of(n.orelse, depth + 1)
            return None if a is None or b is None else min(a, b)
        if isinstance(n, ast.Call) and isinstance(n.func, ast.Name) and n.func.id == 'roundup' and len(n.args) == 2 and self.roundup_ok:
            return self.of(n.args[0], depth + 1)       # roundup(x, k) >= x
        return None


def check_loops(ctx, w, graph):
    n = 0
    for key, f in sorted(graph.items()):
        env = expr.FEnv(f.node, inline=False)
        for lp in walk_no_nested(f.node):
            if isinstance(lp, ast.While):
                n += 1
                ok, why = _while_progress(w, f, lp, env)
                ctx.ob('I-PROG', f.construct, 'while %s' % U(lp.test)[:40], ok, got=why, line=lp.lineno,
                       msg='no progress argument for this loop: a corrupted field may keep it running',
                       sample='%s: while %s -- %s' % (f.construct, U(lp.test)[:30], why))
            elif isinstance(lp, ast.For) and 'itertools.count()' in U(lp.iter):
                n += 1
                ok, why = _count_progress(w, f, lp, env)
                ctx.ob('I-PROG', f.construct, 'for %s in count()' % U(lp.target), ok, got=why, line=lp.lineno,
                       msg='an unbounded counting loop must parse at a strictly advancing, bounds-checked position or stop',
                       sample='%s: count() loop -- %s' % (f.construct, why))
            elif isinstance(lp, ast.For):
                # bounded iteration: range(count) / a generator of the battery / a finite container -- the body must not be
                # able to restart it (no assignment to the iterated name inside the body)
                it = U(lp.iter)
                stored = set(x.id for s in lp.body for x in ast.walk(s) if isinstance(x, ast.Name) and isinstance(x.ctx, ast.Store))
                names = set(x.id for x in ast.walk(lp.iter) if isinstance(x, ast.Name)) - {'self', 'range', 'enumerate'}
                ctx.ob('I-PROG', f.construct, 'for over %s: iterable not rebound in the body' % it[:40], not (names & stored), got=sorted(names & stored), line=lp.lineno)
                if isinstance(lp.iter, ast.Call) and isinstance(lp.iter.func, ast.Name) and lp.iter.func.id == 'range':
                    for cur, ok, why in _chained_cursor_progress(w, f, lp, env):
                        n += 1
                        ctx.ob('I-PROG', f.construct, 'counted walk over a chain: cursor %s moves forward or the walk ends' % cur, ok, got=why, line=lp.lineno,
                               msg='a count taken from the file bounds this walk, but its cursor follows a "next" field that may be 0: a corrupted count '
                                   're-reads one record count times (2**32), far beyond the size of the file',
                               sample='%s: for _ in range(count) with cursor %s -- %s' % (f.construct, cur, why))
    ctx.analysed['battery_loops'] = n


def _chained_cursor_progress(w, f, lp, env):
    """A `for _ in range(count)` loop that carries its own cursor: a local that the body uses as the position of a parse and
    advances by a value read from the file.  -> [(cursor, ok, why)].  On every path through the body that reaches the advance, the
    advance has a positive lower bound, or it is an unsigned field and the path has tested it to be non-zero (a zero "next" ends the
    chain: the walk must leave the loop there, not read the same record again)."""
    out = []
    lb = LB(w, f.node)
    signs = lb.signs
    pos_names = set()
    for c in ast.walk(lp):
        if isinstance(c, ast.Call) and (dispatch.callee_name(c) or '') == 'struct_parse':
            pos = c.args[2] if len(c.args) > 2 else next((k.value for k in c.keywords if k.arg == 'stream_pos'), None)
            if isinstance(pos, ast.Name):
                pos_names.add(pos.id)
    advs = [st for st in ast.walk(lp) if isinstance(st, ast.AugAssign) and isinstance(st.op, ast.Add) and isinstance(st.target, ast.Name) and st.target.id in pos_names]
    for cur in sorted(set(a.target.id for a in advs)):
        ok = True
        why = []
        for p in paths.enum_paths(lp.body):
            for ev in p.events:
                if ev[0] == 'stmt' and ev[1] in advs and ev[1].target.id == cur:
                    adv = ev[1].value
                    b = lb.of(adv)
                    if b is None:
                        b = _variable_field_lb(f, adv, signs)
                    if b is not None and b >= 1:
                        why.append('advance >= %d' % b)
                        continue
                    facts = expr.Facts(expr.CP(expr.cond_str(t, env), pol) for t, pol in p.conds())
                    nz = facts.truth('%s != 0' % U(adv), env)
                    if b is not None and b >= 0 and nz is True:
                        why.append('unsigned advance tested non-zero on the path')
                    else:
                        ok = False
                        why.append('advance %s: lower bound %s, not tested against 0 before it is added' % (U(adv)[:40], b))
        out.append((cur, ok, sorted(set(why))))
    return out


def _variable_field_lb(f, adv, signs):
    """entry[K] with K = self._field_name('<x>'[, auxiliary=True]): every structure field '<prefix>_<x>' / '<prefix>a_<x>' it can
    name is declared unsigned -> 0"""
    if not (isinstance(adv, ast.Subscript) and isinstance(adv.slice, ast.Name)):
        return None
    defs = [st.value for st in ast.walk(f.node) if isinstance(st, ast.Assign) and len(st.targets) == 1 and isinstance(st.targets[0], ast.Name) and
            st.targets[0].id == adv.slice.id]
    if len(defs) != 1 or not (isinstance(defs[0], ast.Call) and (dispatch.callee_name(defs[0]) or '').endswith('_field_name') and defs[0].args and
                              isinstance(defs[0].args[0], ast.Constant)):
        return None
    x = defs[0].args[0].value
    cands = [k for k in signs if k.startswith('v') and (k.endswith('_' + x)) and len(k) <= len(x) + 4]
    if cands and all(all(c in UNSIGNED_CTORS for c in signs[k]) for k in cands):
        return 0
    return None


def _assigned_in(loop):
    return set(x.id for s in loop.body for x in ast.walk(s) if isinstance(x, ast.Name) and isinstance(x.ctx, ast.Store))


def _while_progress(w, f, lp, env):
    lb = LB(w, f.node)
    assigned = _assigned_in(lp)
    # (a) guard `cursor (+c) < / <= end` with a loop-invariant end; the cursor grows by at least 1 on every path through the body
    if isinstance(lp.test, ast.Compare) and len(lp.test.ops) == 1 and isinstance(lp.test.ops[0], (ast.Lt, ast.LtE)):
        lhs = [x.id for x in ast.walk(lp.test.left) if isinstance(x, ast.Name)]
        rhs = [x.id for x in ast.walk(lp.test.comparators[0]) if isinstance(x, ast.Name)]
        cursors = [v for v in lhs if v in assigned]
        if len(cursors) == 1 and not (set(rhs) & assigned):
            var = cursors[0]
            worst = None
            for p in paths.enum_paths(lp.body):
                if p.end[0] not in ('fall', 'continue'):
                    continue
                total = 0
                for st in p.stmts():
                    for x in ([st] if isinstance(st, (ast.AugAssign, ast.Assign)) else []):
                        if isinstance(x, ast.AugAssign) and isinstance(x.target, ast.Name) and x.target.id == var:
                            b = lb.of(x.value) if isinstance(x.op, ast.Add) else None
                            if b is None:
                                return False, 'advance %s of %s has no non-negative lower bound' % (U(x), var)
                            total += b
                        elif isinstance(x, ast.Assign) and any(isinstance(t, ast.Name) and t.id == var for t in x.targets):
                            return False, 'cursor %s reassigned (%s)' % (var, U(x)[:40])
                worst = total if worst is None else min(worst, total)
            if worst is not None and worst >= 1:
                # the guard's bound comes from the file (it can be 2^64): what ends the loop on a short file is the parse at
                # the cursor, first thing in every iteration (struct_parse raises ELFParseError past the end of the stream)
                ops = [o for o in streams.ops_of(lp.body[0], env) if o.kind == 'parse' and o.args[1] is not None]
                if not ops or ops[0].args[1] != var:
                    return False, 'the body does not start by parsing at the cursor %s (nothing stops the walk at end of stream)' % var
                return True, 'struct_parse at cursor %s first in every iteration (ELFParseError at end of stream); cursor grows by at least %d per iteration' % (var, worst)
            return False, 'cursor %s may advance by %s' % (var, worst)
    # (b) while True: sequential fixed-size reads; a short read leaves the loop (explicit test or exact-size unpack); no seek inside
    if isinstance(lp.test, ast.Constant) and lp.test.value is True:
        for c in ast.walk(lp):
            if isinstance(c, ast.Call) and isinstance(c.func, ast.Attribute) and c.func.attr == 'seek':
                return False, 'seek inside a sequential read loop (%s)' % U(c)[:40]
        first = lp.body[0]
        reads = [c for c in ast.walk(first) if isinstance(c, ast.Call) and isinstance(c.func, ast.Attribute) and c.func.attr == 'read' and c.args]
        if len(reads) != 1:
            return False, 'first statement of the body is not a single read'
        size = reads[0].args[0]
        b = lb.of(size)
        if b is None or b < 1:
            return False, 'read size %s not proven positive' % U(size)
        # exit on short read: struct.unpack(fmt, read(K)) raises; or `if len(chunk) < K: break`
        for c in ast.walk(first):
            if isinstance(c, ast.Call) and U(c.func) == 'struct.unpack' and len(c.args) == 2 and c.args[1] is reads[0]:
                return True, 'reads %s bytes sequentially per iteration; struct.unpack raises on the short read at end of stream' % U(size)
        if isinstance(first, ast.Assign) and isinstance(first.targets[0], ast.Name) and first.value is reads[0]:
            chunk = first.targets[0].id
            want = expr.spec_cond('len(%s) < %s' % (chunk, U(size)))
            for p in paths.enum_paths(lp.body):
                if p.end[0] in ('fall', 'continue'):
                    # a path that continues must have established the chunk was full
                    if (want, False) not in [expr.CP(expr.cond_str(t, env), pol) for t, pol in p.conds()]:
                        return False, 'a path continues the loop without having tested len(%s) < %s' % (chunk, U(size))
            return True, 'reads %s bytes sequentially per iteration and leaves the loop on a short read' % U(size)
        return False, 'no exit on a short read'
    return False, 'loop shape not recognised (no cursor guard, not a sequential read loop)'


def _count_progress(w, f, lp, env):
    var = lp.target.id if isinstance(lp.target, ast.Name) else None
    if var in _assigned_in(lp):
        return False, 'counter reassigned in the body'
    # the body's first statement calls an accessor with the counter; that accessor parses (struct_parse: raises at end of
    # stream) at base + n*stride with stride >= 1 and loop-invariant base
    first = lp.body[0]
    for c in ast.walk(first):
        if isinstance(c, ast.Call) and any(isinstance(a, ast.Name) and a.id == var for a in c.args):
            cn = dispatch.callee_name(c)
            if cn and cn.startswith('self.') and f.cls is not None:
                g = f.cls.find_method(cn[5:])
                depth = 0
                while g is not None and depth < 3:
                    pname = [a.arg for a in g.node.args.args if a.arg != 'self'][:1]
                    genv = expr.FEnv(g.node, params=('n',))
                    ops = [o for o in streams.func_ops(g.node, genv) if o.kind == 'parse' and o.args[1] is not None]
                    if ops:
                        pos = ops[0].args[1]
                        if pos == expr.spec_nf('_offset + n * _tagsize'):
                            return True, 'entry n parsed by struct_parse at _offset + n*_tagsize (_tagsize = sizeof(Elf_Dyn) >= 1): ELFParseError at end of stream'
                        return False, 'accessor position %s not recognised as base + n*positive stride' % pos
                    inner = [x for x in ast.walk(g.node) if isinstance(x, ast.Call) and (dispatch.callee_name(x) or '').startswith('self.') and
                             any(isinstance(a, ast.Name) and a.id in pname for a in x.args)]
                    g = f.cls.find_method(dispatch.callee_name(inner[0])[5:]) if inner else None
                    depth += 1
    return False, 'the first statement of the body does not parse the entry indexed by the counter'


def check_strides(ctx, w):
    """_section_offset / _segment_offset exempt a zero table offset from the entry-size guard; then the count must be 0
    when the table offset is 0, otherwise a zero stride re-reads one header count times."""
    for fn, off, cnt, ent, st in (('_section_offset', 'e_shoff', 'num_sections', 'e_shentsize', 'Elf_Shdr'), ('_segment_offset', 'e_phoff', 'num_segments', 'e_phentsize', 'Elf_Phdr')):
        f = w.model.func(EF, 'ELFFile.' + fn)
        env = expr.FEnv(f.node, params=('n',))
        small = expr.spec_cond('%s < sizeof(%s)' % (ent, st))
        full = expr.spec_cond('%s > 0 and %s < sizeof(%s)' % (off, ent, st))
        raise_conds = []
        ret = None
        for p in paths.func_paths(f.node):
            cs = [expr.CP(expr.cond_str(t, env), pol) for t, pol in p.conds()]
            if p.end[0] == 'raise':
                raise_conds.append(cs)
            elif p.end[0] == 'return':
                ret = expr.nfs(p.end[1], env)
        full_split = list(expr.outcome('%s > 0 and %s < sizeof(%s)' % (off, ent, st), True))
        guarded = raise_conds in ([[(small, True)]], [[(full, True)]], [full_split])
        exempt = raise_conds in ([[(full, True)]], [full_split])
        ctx.ob('I-STRIDE0', f.construct, 'entry smaller than the header struct -> ELFError', guarded, got=raise_conds,
               msg='no guard that the header entry size is at least the struct size: a zero or tiny stride re-reads overlapping headers', line=f.node.lineno)
        ctx.ob('I-STRIDE0', f.construct, 'entry n at table offset + n*entry size', ret == expr.spec_nf('%s + n*%s' % (off, ent)), got=ret)
        g = w.model.func(EF, 'ELFFile.' + cnt)
        genv = expr.FEnv(g.node)
        zero = False
        for conds, r, p in paths.returns_with_conds(g.node):
            cs = [expr.CP(expr.cond_str(t, genv), pol) for t, pol in conds]
            # exactly: table offset 0 -> 0 entries, with no further condition (a stale count in a file whose table was detached by
            # zeroing the offset alone must not bring the table back)
            if cs == [expr.CP(expr.spec_cond('%s == 0' % off), True)] and isinstance(r, ast.Constant) and r.value == 0:
                zero = True
        ctx.ob('I-STRIDE0', g.construct, 'no table (%s == 0) -> count 0' % off, zero or not exempt,
               msg='the entry-size guard is skipped when the table offset is 0; with a non-zero count and entry size 0 the same bytes are '
                   'parsed count times (up to 2^32 with the extended-numbering escape): not bounded by the file size', line=g.node.lineno,
               sample='%s: %s == 0 -> 0 entries' % (cnt, off))
    f = w.model.func('elf/dynamic.py', 'Dynamic.__init__')
    tr = expr.assign_trace(f.node, expr.FEnv(f.node, inline=False))
    ctx.ob('I-STRIDE0', f.construct, 'tag stride = sizeof(Elf_Dyn)', tr.get('self._tagsize') == [('=', 'sizeof(Elf_Dyn)')])
    g = w.model.func('elf/sections.py', 'SymbolTableSection.__init__')
    conds = [expr.cond_str(n.args[0], expr.FEnv(g.node)) for n in ast.walk(g.node) if isinstance(n, ast.Call) and isinstance(n.func, ast.Name) and n.func.id == 'elf_assert']
    ctx.ob('I-STRIDE0', g.construct, 'symbol entry size > 0 asserted with ELFError', expr.spec_cond('sh_entsize > 0') in conds, got=conds)


MUTANTS = [
    ('verneed-chain-end-gone', 'elf/gnuversions.py', "            if entry[next_field] == 0:\n                break\n            entry_offset += entry[next_field]\n\n\nclass",
     "            entry_offset += entry[next_field]\n\n\nclass", 'I-PROG'),
    ('vernaux-chain-end-inverted', 'elf/gnuversions.py', "            if entry[next_field] == 0:\n                break\n            entry_offset += entry[next_field]\n\n    def iter_versions",
     "            if entry[next_field] != 0:\n                break\n            entry_offset += entry[next_field]\n\n    def iter_versions", 'I-PROG'),
    ('bound-test-gone', EF, "        if stream_pos > self.stream_len:\n            return None\n", "", 'K-'),
    ('elf-assert-assert', EF, "        elf_assert(magic == b'\\x7fELF', 'Magic number does not match')", "        assert magic == b'\\x7fELF', 'Magic number does not match'", 'K-ASSERT'),
    ('valueerror', EF, "            raise ELFError('Invalid EI_CLASS %s' % repr(ei_class))", "            raise ValueError('Invalid EI_CLASS %s' % repr(ei_class))", 'K-RAISE'),
    ('elfclass-other', EF, "            self.elfclass = 64\n", "            self.elfclass = 128\n", 'K-ASSERT'),
    ('notes-advance-dropped', 'elf/notes.py', "        offset += nhdr_size\n", "        pass\n", 'I-PROG'),
    ('notes-advance-signed', 'elf/notes.py', "        offset += roundup(note['n_descsz'], 2)\n", "        offset += roundup(note['n_descsz'], 2) - 16\n", 'I-PROG'),
    ('notes-no-parse-at-cursor', 'elf/notes.py', "                p = struct_parse(elffile.structs.Elf_Prop, elffile.stream, off)", "                p = struct_parse(elffile.structs.Elf_Prop, elffile.stream, offset)", 'I-PROG'),
    ('prop-advance-zero', 'elf/notes.py', "                off += roundup(p.pr_datasz + 8, 2 if elffile.elfclass == 32 else 3)", "                off += roundup(p.pr_datasz, 2 if elffile.elfclass == 32 else 3)", 'I-PROG'),
    ('wrap-overflow-gone', 'common/utils.py', "            except (OverflowError, ValueError, OSError) as e:", "            except (ValueError, OSError) as e:", 'K-WRAP'),
    ('wrap-swallow', 'common/utils.py', "    except ConstructError as e:\n        raise ELFParseError(str(e))", "    except ConstructError as e:\n        return None", 'K-WRAP'),
    ('null-deref', EF, "            header = self._get_section_header(0)\n            if header is None:\n                raise ELFParseError('Section header table is beyond the end of the file')\n            return header['sh_link']",
     "            return self._get_section_header(0)['sh_link']", 'K-NULL'),
    ('null-untested', EF, "        if stringtable_section_header is None:\n            return None\n", "", 'K-NULL'),
    ('phoff-zero', EF, "        if self['e_phoff'] == 0:\n            return 0\n", "", 'I-STRIDE0'),
    ('shoff-zero', EF, "        if self['e_shoff'] == 0:\n            return 0\n", "", 'I-STRIDE0'),
    ('entsize-guard-gone', EF, "        if self['e_phoff'] > 0 and phentsize < self.structs.Elf_Phdr.sizeof():\n            raise ELFError('Too small e_phentsize: %s' % phentsize)\n", "", 'I-STRIDE0'),
    ('entsize-guard-nonzero', EF, "        if self['e_shoff'] > 0 and shentsize < self.structs.Elf_Shdr.sizeof():", "        if self['e_shoff'] > 0 and shentsize < 0:", 'I-STRIDE0'),
    ('tags-fixed-index', 'elf/dynamic.py', "        for n in itertools.count():\n            tag = self._get_tag(n)\n            if tag['d_tag'] == 'DT_NULL':\n                self._num_tags",
     "        for n in itertools.count():\n            tag = self._get_tag(0)\n            if tag['d_tag'] == 'DT_NULL':\n                self._num_tags", 'I-PROG'),
    ('tag-stride-zero', 'elf/dynamic.py', "        offset = self._offset + n * self._tagsize", "        offset = self._offset + n % 2 * self._tagsize", 'I-PROG'),
    ('direct-parse', 'elf/sections.py', "            header = struct_parse(self.structs.Elf_Chdr,\n                                  self.stream,\n                                  stream_pos=self['sh_offset'])", "            self.stream.seek(self['sh_offset'])\n            header = self.structs.Elf_Chdr.parse_stream(self.stream)", 'K-'),
    ('cstring-loop', 'common/utils.py', "        if len(chunk) < CHUNKSIZE:\n            break", "        if len(chunk) < CHUNKSIZE and found:\n            break", 'I-PROG'),
    ('gnuhash-count-seek', 'elf/hash.py', "        while True:\n            cur_hash = struct.unpack(hash_format, self.elffile.stream.read(self._wordsize))[0]\n            if cur_hash & 1:\n                return max_idx + 1\n",
     "        while True:\n            self.elffile.stream.seek(max_chain_pos)\n            cur_hash = struct.unpack(hash_format, self.elffile.stream.read(self._wordsize))[0]\n            if cur_hash & 1:\n                return max_idx + 1\n", 'I-PROG'),
    ('gnuhash-read-padded', 'elf/hash.py', "            cur_hash = struct.unpack(hash_format, self.elffile.stream.read(self._wordsize))[0]\n            if cur_hash & 1:\n                return max_idx + 1\n",
     "            cur_hash = struct.unpack(hash_format, self.elffile.stream.read(self._wordsize).ljust(4, b'\\0'))[0]\n            if cur_hash & 1:\n                return max_idx + 1\n", 'I-PROG'),
    ('dyn-key-unguarded', 'elf/structs.py', "        if self.e_machine in ENUMMAP_EXTRA_D_TAG_MACHINE:\n            d_tag_dict.update(ENUMMAP_EXTRA_D_TAG_MACHINE[self.e_machine])\n        if", "        d_tag_dict.update(ENUMMAP_EXTRA_D_TAG_MACHINE[self.e_machine])\n        if", 'K-KEY'),
    ('parse-error-not-elferror', 'common/exceptions.py', "class ELFParseError(ELFError):", "class ELFParseError(Exception):", 'K-RAISE'),
]
