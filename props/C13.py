"""C13 -- address-range and name lookup tables resolve to the right compilation unit.

Decides (DESIGN.md §3 C13): set-header layouts; set walks (next set formula, sibling agreement of the unit-extent
formula across the package); name entries (absolute DIE offset, insertion order, terminator); bisect lookups
(J-BISECT) and hit conditions; get_CU_containing / get_CU_at / get_DIE_from_lut_entry.
"""
import ast
from sa.canon import U
from sa.world import get_world
from sa import dwconf, layout, expr, paths, streams, dispatch, hrules, owner
from sa.report import AnalysisError
from spec import dwarf as D

AR = 'dwarf/aranges.py'
NL = 'dwarf/namelut.py'
DI = 'dwarf/dwarfinfo.py'


def run(ctx):
    w = get_world(ctx)
    ctx.explanation.append(
        'C13: Dwarf_aranges_header / Dwarf_nameLUT_header / name entry layouts vs DWARF rows for all configurations (L-CONF); '
        'tuple field width by the set\'s address_size; next set = offset + unit_length + initial-length size, the same formula '
        'at every unit walk of the package (sibling agreement, E-i); absolute DIE offset = debug_info_offset + die_ofs; '
        'insertion order preserved (no sort / plain dict); bisect discipline of cu_offset_at_addr, get_CU_containing and '
        '_cached_CU_at_offset incl. empty-table guard (J-BISECT); hit conditions (E-iii); H-CUR.')
    ctx.assumptions += ['the first-tuple padding uses float ceil: its value arithmetic is not decided, its base (the set start) is', 'overlapping ranges are outside the claim']
    for r, d in (('L-CONF', 'set header layouts'), ('E-i', 'walk and offset formulas'), ('SIB', 'unit-extent formula agrees across the package'),
                 ('J-BISECT', 'bisect lookups are guarded and paired with the right probe index'), ('E-iii', 'hit conditions'),
                 ('W-LUT', 'name table construction'), ('H-CUR', 'cursor discipline'),
                 ('G-OWNER', 'the address size of a set comes from the set header')):
        ctx.rule(r, d)
    ctx.guard('G-OWNER', 'set headers', owner.gowner_headers, ctx, w, ('dwarf/aranges.py', 'dwarf/namelut.py'))
    # the unit walk behind get_CU_containing / iter_CUs steps by the size of each unit's *own* initial length field (shared with C04)
    ctx.guard('G-OWNER', 'unit walk', owner.gowner, ctx, w, ('dwarf/dwarfinfo.py',))
    ctx.floor('G-OWNER', 6)
    ctx.guard('L-CONF', 'aranges', dwconf.check_struct, ctx, w, 'Dwarf_aranges_header', D.ARANGES_HEADER)
    ctx.guard('L-CONF', 'nameLUT', dwconf.check_struct, ctx, w, 'Dwarf_nameLUT_header', D.NAMELUT_HEADER)
    ctx.guard('L-CONF', 'entries', check_entry_structs, ctx, w)
    ctx.floor('L-CONF', 280)
    ctx.guard('E-i', 'aranges walk', check_aranges, ctx, w)
    ctx.guard('W-LUT', 'namelut', check_namelut, ctx, w)
    ctx.floor('W-LUT', 8)
    ctx.guard('SIB', 'extent formulas', check_extents, ctx, w)
    ctx.floor('SIB', 8)
    ctx.guard('J-BISECT', 'bisect', check_bisect, ctx, w)
    ctx.floor('J-BISECT', 8)
    ctx.guard('H-CUR', 'cursor', hrules.run_h, ctx, w, [AR, NL])


def check_entry_structs(ctx, w):
    # name entry struct built in NameLUT._get_entries: offset-sized die_ofs, C string iff non-zero
    f = w.model.func(NL, 'NameLUT._get_entries')
    src = U(f.node)
    ok = "entry_struct = Struct('Dwarf_offset_name_pair', self._structs.Dwarf_offset('die_ofs'), If(lambda ctx: ctx['die_ofs'], CString('name')))" in src
    ctx.ob('L-CONF', f.construct, 'entry = offset-sized die_ofs, C string iff die_ofs != 0', ok,
           msg='name entry must be an offset-sized DIE offset followed by a name only when the offset is non-zero')
    g = w.model.func(AR, 'ARanges._get_addr_size_struct')
    genv = expr.FEnv(g.node, params=('addr_header_value',))
    rp = [(expr.Facts(expr.CP(expr.cond_str(t, genv), pol) for t, pol in c), expr.nfs(r, genv)) for c, r, p in paths.returns_with_conds(g.node)]
    want4 = expr.spec_cond('addr_header_value == 4')
    ok = ({want4: True}, 'Dwarf_uint32') in rp and any(c.get(want4) is False and r == 'Dwarf_uint64' for c, r in rp)
    ctx.ob('L-CONF', g.construct, 'tuple fields: 4 -> u32, 8 -> u64', ok, got=rp, msg='tuple field width does not follow the set\'s address_size')
    for le in (True, False):
        st = dwconf.structs_for(w, le, 32, 4, 4)
        e = '<' if le else '>'
        for attr, want in (('Dwarf_uint32', 'u32' + e), ('Dwarf_uint64', 'u64' + e)):
            node = w.interp.call(st.attrs[attr], ['x'], {}, None)
            got = dwconf.atom_of(w, node)
            ctx.ob('L-CONF', 'dwarf/structs.py:DWARFStructs.' + attr, 'atom [%s]' % ('LSB' if le else 'MSB'), got == want, got=got, expected=want)


def check_aranges(ctx, w):
    f = w.model.func(AR, 'ARanges._get_entries')
    env = expr.FEnv(f.node, params=('need_empty',), inline=False)
    tr = expr.assign_trace(f.node, env)
    want = [('=', '0'), ('+=', expr.spec_nf('unit_length + structs.initial_length_field_size()'))]      # x = x + a + b is x += a + b (N2)
    ctx.ob('E-i', f.construct, 'next set = offset + unit_length + initial length size', tr.get('offset') == want, got=tr.get('offset'), expected=want)
    ops = [o.t() for o in streams.func_ops(f.node, env) if o.kind == 'parse']
    ctx.ob('E-i', f.construct, 'header parsed at offset', bool(ops) and ops[0] == ('parse', 'stream', 'Dwarf_aranges_header', 'offset'), got=ops[:1])
    ctx.ob('E-i', f.construct, 'tuples: (addr, length) pairs of the set width',
           [o[2] for o in ops[1:]] == ["addr_size('addr')", "addr_size('length')", "addr_size('addr')", "addr_size('length')"], got=[o[2] for o in ops[1:]])
    ctx.ob('E-i', f.construct, 'width from the set header', tr.get('addr_size') == [('=', '_get_addr_size_struct(self,address_size)')], got=tr.get('addr_size'))
    ctx.ob('E-i', f.construct, 'tuple size = 2 * address_size', tr.get('tuple_size') == [('=', expr.spec_nf('address_size * 2'))], got=tr.get('tuple_size'))
    # DWARF 5 section 6.1.2 (and binutils display_debug_aranges, LLVM DWARFDebugArangeSet): the first tuple of a set begins at an offset *in the
    # set* that is a multiple of the tuple size.  Section-relative and set-relative padding differ as soon as a set starts at an offset that
    # is not a multiple of its own tuple size (a set of 4-byte addresses followed by one of 8-byte addresses).
    fp = tr.get('fp')
    rel = [('=', expr.spec_nf('tell(stream) - offset'))]
    seeks = [o.t() for o in streams.func_ops(f.node, env) if o.kind == 'seek']
    back = [o for o in seeks if len(o) > 2 and 'seek_to' in str(o[2]) and 'offset' in str(o[2])]
    ctx.ob('E-i', f.construct, 'first tuple padded relative to the start of its set', fp == rel and bool(back), got=(fp, seeks[-1:] if seeks else None), expected=rel,
           msg='the padding in front of the first tuple is computed from the position in the section, not in the set: a set that starts at an offset '
               'which is not a multiple of its tuple size is read from the wrong place')
    whiles = sorted([n for n in ast.walk(f.node) if isinstance(n, ast.While)], key=lambda n: n.lineno)
    ctx.ob('E-i', f.construct, 'sets until the section size', bool(whiles) and expr.cond_str(whiles[0].test, env) == expr.spec_cond('offset < size'))
    ctx.ob('E-i', f.construct, 'tuples until (0,0)', len(whiles) == 2 and expr.cond_str(whiles[1].test, env) ==
           expr.spec_cond('addr != 0 or length != 0 or (not got_entries and need_empty)'), got=expr.cond_str(whiles[1].test, env) if len(whiles) > 1 else None)
    mk = [c for c in ast.walk(f.node) if isinstance(c, ast.Call) and dispatch.callee_name(c) == 'ARangeEntry']
    kw = dict((k.arg, expr.nfs(k.value, env)) for k in mk[0].keywords) if mk else None
    want_kw = {'begin_addr': 'addr', 'length': 'length', 'info_offset': 'debug_info_offset', 'unit_length': 'unit_length', 'version': 'version',
               'address_size': 'address_size', 'segment_size': 'segment_size'}
    ctx.ob('E-i', f.construct, 'range tuple carries its set header', kw == want_kw, got=kw, expected=want_kw)
    g = w.model.func(AR, 'ARanges.__init__')
    src = [U(s) for s in g.node.body if not (isinstance(s, ast.Expr) and isinstance(s.value, ast.Constant))]
    ok = 'self.entries = self._get_entries()' in src and 'self.entries.sort(key=lambda entry: entry.begin_addr)' in src and \
        'self.keys = [entry.begin_addr for entry in self.entries]' in src and \
        src.index('self.entries.sort(key=lambda entry: entry.begin_addr)') < src.index('self.keys = [entry.begin_addr for entry in self.entries]')
    ctx.ob('E-i', g.construct, 'entries sorted by begin address, key list parallel', ok, got=src)
    h = w.model.func(AR, 'ARanges.cu_offset_at_addr')
    henv = expr.FEnv(h.node, params=('addr',), inline=False)
    rp = paths.returns_with_conds(h.node)
    hit = expr.spec_tt('begin_addr <= addr < begin_addr + length')
    oks = []
    for c, r, p in rp:
        cs = [expr.cond_tt(t, henv, negate=not pol) for t, pol in c]
        rs = expr.nfs(r, henv)
        if rs == 'info_offset':
            eq, cex, n = expr.tt_equiv(('and', [x for x in cs if 'begin_addr' in str(x)]), hit)
            oks.append(eq)
    ctx.ob('E-iii', h.construct, 'hit iff begin <= addr < begin + length', oks == [True], got=oks,
           msg='an address is inside a range iff begin <= addr < begin + length')
    others = sorted(set(expr.nfs(r, henv) for c, r, p in rp) - {'info_offset'})
    ctx.ob('E-iii', h.construct, 'None outside every range', others == ['None'], got=others)


def check_namelut(ctx, w):
    f = w.model.func(NL, 'NameLUT._get_entries')
    env = expr.FEnv(f.node, inline=False)
    tr = expr.assign_trace(f.node, env)
    want = [('=', '0'), ('+=', expr.spec_nf('unit_length + _structs.initial_length_field_size()'))]
    ctx.ob('W-LUT', f.construct, 'next set = offset + unit_length + initial length size', tr.get('offset') == want, got=tr.get('offset'), expected=want)
    ops = [o.t() for o in streams.func_ops(f.node, env)]
    want_ops = [('seek', '_stream', '0', 'SEEK_SET'), ('parse', '_stream', 'Dwarf_nameLUT_header', 'offset'), ('parse', '_stream', 'entry_struct', None)]
    ctx.ob('W-LUT', f.construct, 'header at offset, entries sequentially after it', ops == want_ops, got=ops, expected=want_ops)
    mk = [c for c in ast.walk(f.node) if isinstance(c, ast.Call) and dispatch.callee_name(c) == 'NameLUTEntry']
    kw = dict((k.arg, expr.nfs(k.value, env)) for k in mk[0].keywords) if mk else None
    ctx.ob('W-LUT', f.construct, 'cu_ofs = debug_info_offset; die_ofs absolute = debug_info_offset + die_ofs',
           (kw == {'cu_ofs': 'hdr_cu_ofs', 'die_ofs': expr.spec_nf('hdr_cu_ofs + die_ofs')} and tr.get('hdr_cu_ofs') == [('=', 'debug_info_offset')]) or
           # (the latch local is an optimisation: the header field used directly is the same value)
           (kw == {'cu_ofs': 'debug_info_offset', 'die_ofs': expr.spec_nf('debug_info_offset + die_ofs')} and tr.get('hdr_cu_ofs') is None), got=(kw, tr.get('hdr_cu_ofs')),
           msg='entry offset must be made absolute with the set\'s debug_info_offset')
    tests = [expr.cond_str(n.test, env) for n in ast.walk(f.node) if isinstance(n, ast.If)]
    ctx.ob('W-LUT', f.construct, 'set ends at die_ofs == 0', tests == [expr.spec_cond('die_ofs == 0')], got=tests)
    ctx.ob('W-LUT', f.construct, 'plain dict in encounter order, headers appended in order',
           tr.get('entries') == [('=', 'tuple()')] or ("entries = {}" in U(f.node) and 'cu_headers.append(namelut_hdr)' in U(f.node)))
    sorts = [n for n in ast.walk(w.model.tree(NL)) if isinstance(n, ast.Call) and (dispatch.callee_name(n) in ('sorted',) or
             (isinstance(n.func, ast.Attribute) and n.func.attr == 'sort'))]
    ctx.ob('W-LUT', NL, 'no sorting anywhere in the module (encoded order preserved)', not sorts, got=[U(s) for s in sorts])
    ctx.ob('W-LUT', f.construct, 'name decoded as UTF-8 key', "entries[entry.name.decode('utf-8')] = NameLUTEntry(" in U(f.node))
    rets = [expr.nfs(r.value, env) for r in expr.returns_of(f.node)]
    ctx.ob('W-LUT', f.construct, 'returns (entries, headers)', rets == ['tuple(entries,cu_headers)'], got=rets)
    # every accessor goes through the lazy guard
    ci = w.model.cls('NameLUT')
    for m in ('get_entries', '__len__', '__getitem__', '__iter__', 'items', 'get', 'get_cu_headers'):
        g = ci.methods[m]
        ifs = [n for n in g.node.body if isinstance(n, ast.If)]
        ok = len(ifs) == 1 and expr.cond_str(ifs[0].test) in (expr.spec_cond('_entries is None'), expr.spec_cond('_cu_headers is None')) and \
            [U(s).replace('(', '').replace(')', '') for s in ifs[0].body] == ['self._entries, self._cu_headers = self._get_entries']
        ctx.ob('W-LUT', g.construct, 'lazy load guard', ok)
    for q, sec in (('DWARFInfo.get_pubtypes', 'debug_pubtypes_sec'), ('DWARFInfo.get_pubnames', 'debug_pubnames_sec')):
        g = w.model.func(DI, q)
        ctx.ob('W-LUT', g.construct, 'table over its own section', 'NameLUT(self.%s.stream, self.%s.size, self.structs)' % (sec, sec) in U(g.node))
    g = w.model.func(DI, 'DWARFInfo.get_aranges')
    ctx.ob('W-LUT', g.construct, 'aranges over .debug_aranges', 'ARanges(self.debug_aranges_sec.stream, self.debug_aranges_sec.size, self.structs)' in U(g.node))
    g = w.model.func(DI, 'DWARFInfo.get_DIE_from_lut_entry')
    genv = expr.FEnv(g.node, params=('lut_entry',))
    rets = [expr.nfs(r.value, genv) for r in expr.returns_of(g.node)]
    ctx.ob('W-LUT', g.construct, 'unit at cu_ofs (exact), entry at die_ofs', rets == ['get_DIE_from_refaddr(self,die_ofs,get_CU_at(self,cu_ofs))'], got=rets)


EXTENT_SITES = [
    (DI, 'DWARFInfo._parse_CUs_iter', 'offset'), (DI, 'DWARFInfo._parse_TUs_iter', 'offset'), (DI, 'DWARFInfo._parse_debug_types', 'offset'),
    (DI, 'DWARFInfo._parse_line_program_at_offset', 'end_offset'), (AR, 'ARanges._get_entries', 'offset'), (NL, 'NameLUT._get_entries', 'offset'),
    ('dwarf/callframe.py', 'CallFrameInfo._parse_entry_at', 'end_offset'),
]


def check_extents(ctx, w):
    """Engler-style sibling agreement: every computation of 'next unit / end of unit' in the package is
    position + length field + initial_length_field_size()."""
    for mod, q, var in EXTENT_SITES:
        f = w.model.func(mod, q)
        env = expr.FEnv(f.node, inline=False)
        tr = expr.assign_trace(f.node, env)
        vals = [v for op, v in tr.get(var, []) if 'initial_length_field_size' in v]
        ok = len(vals) == 1
        if ok:
            p = vals[0]
            ok = p in (expr.spec_nf('offset + unit_length + x.initial_length_field_size()').replace('initial_length_field_size(x)', 'initial_length_field_size()'),
                       'initial_length_field_size() + offset + unit_length', 'initial_length_field_size(entry_structs) + length + offset',
                       'initial_length_field_size() + length + offset',
                       # the advancing form: position += length + initial length size
                       'initial_length_field_size() + unit_length', 'initial_length_field_size() + length')
        ctx.ob('SIB', '%s:%s' % (mod, q), '%s = position + length + initial_length_field_size()' % var, ok, got=tr.get(var),
               msg='unit extent computed differently from the other unit walks of the package',
               sample='%s: %s = offset + length + initial length size' % (q, var))
    for mod, cls in (('dwarf/compileunit.py', 'CompileUnit'), ('dwarf/typeunit.py', 'TypeUnit')):
        g = w.model.func(mod, cls + '.size')
        rets = [expr.nfs(r.value, expr.FEnv(g.node)) for r in expr.returns_of(g.node)]
        ctx.ob('SIB', g.construct, 'size = unit_length + initial_length_field_size()', rets == ['initial_length_field_size() + unit_length'], got=rets)
    g = w.model.func('dwarf/dwarf_util.py', '_iter_CUs_in_section')
    tr = expr.assign_trace(g.node, expr.FEnv(g.node, params=('stream', 'structs', 'parser'), inline=False))
    ctx.ob('SIB', g.construct, 'next block = offset_after_length + unit_length', tr.get('offset') == [('=', '0'), ('=', expr.spec_nf('offset_after_length + unit_length'))],
           got=tr.get('offset'))


def _bisect_sites(fnode):
    out = []
    for n in ast.walk(fnode):
        if isinstance(n, ast.Call) and isinstance(n.func, ast.Name) and n.func.id in ('bisect_right', 'bisect_left', 'bisect'):
            out.append(n)
    return out


def check_bisect(ctx, w):
    # (function, keys attr, values attr, how the empty/first case is protected)
    f = w.model.func(AR, 'ARanges.cu_offset_at_addr')
    env = expr.FEnv(f.node, params=('addr',), inline=False)
    sites = _bisect_sites(f.node)
    ctx.ob('J-BISECT', f.construct, 'bisect_right on the key list', len(sites) == 1 and sites[0].func.id == 'bisect_right' and
           expr.nfs(sites[0].args[0], env) == 'keys' and expr.nfs(sites[0].args[1], env) == 'addr', got=[U(s) for s in sites])
    # the [i-1] probe on a possibly empty table needs a guard: some path condition must establish i >= 1 / non-empty
    src = U(f.node)
    guarded = False
    for n in ast.walk(f.node):
        if isinstance(n, ast.If):
            c = expr.cond_str(n.test, env)
            if c in (expr.spec_cond('not self.entries'), expr.spec_cond('not keys'), expr.spec_cond('i == 0'), expr.spec_cond('i < 1'), expr.spec_cond('i >= 1'),
                     expr.spec_cond('i > 0'), expr.spec_cond('not entries'), expr.spec_cond('len(entries) == 0'), '!T(entries)', '!T(keys)', 'T(entries)', 'T(keys)',
                     expr.spec_cond('bisect_right(keys, addr) == 0'), expr.spec_cond('idx == 0'), expr.spec_cond('idx > 0'), expr.spec_cond('idx >= 1')):
                guarded = True
    for n in ast.walk(f.node):
        if isinstance(n, ast.IfExp):
            guarded = guarded or 'entries' in U(n.test) or '> 0' in U(n.test) or '>= 1' in U(n.test)
    ctx.ob('J-BISECT', f.construct, 'probe [i-1] guarded against an empty table / i == 0', guarded,
           msg='entries[bisect_right(keys, addr) - 1] with an empty table or an address below every range indexes [-1]: '
               'IndexError on an empty table instead of None (an address below the first range wraps to the last entry, '
               'which the hit test then rejects)', line=f.node.lineno)
    ctx.ob('J-BISECT', f.construct, 'probe index is bisect_right(...) - 1', 'bisect_right(self.keys, addr) - 1' in src or '- 1]' in src)
    g = w.model.func(DI, 'DWARFInfo._cached_CU_at_offset')
    genv = expr.FEnv(g.node, params=('offset',), inline=False)
    sites = _bisect_sites(g.node)
    ctx.ob('J-BISECT', g.construct, 'bisect_right on the offsets map', len(sites) == 1 and sites[0].func.id == 'bisect_right' and
           expr.nfs(sites[0].args[0], genv) == '_cu_offsets_map' and expr.nfs(sites[0].args[1], genv) == 'offset')
    # hit test under a guarded probe, value from the parallel list at the same index, miss inserts both lists at the bisect index:
    # the path-based paired-cache rule of C10 (shared)
    from props import C10
    ci = w.model.cls('DWARFInfo', DI)
    asg = [st for st in ast.walk(g.node) if isinstance(st, ast.Assign) and isinstance(st.value, ast.Call) and isinstance(st.value.func, ast.Name) and
           st.value.func.id.startswith('bisect') and isinstance(st.targets[0], ast.Name)]
    ctx.ob('J-BISECT', g.construct, 'one bisect site', len(asg) == 1)
    if len(asg) == 1:
        C10._pair_site(ctx, w, ci, g, asg[0], '_cu_offsets_map', '_cu_cache')
    tr = expr.assign_trace(g.node, genv)
    ctx.ob('J-BISECT', g.construct, 'miss parses the unit at the offset', tr.get('cu') == [('=', '_parse_CU_at_offset(self,offset)')], got=tr.get('cu'))
    h = w.model.func(DI, 'DWARFInfo.get_CU_containing')
    henv = expr.FEnv(h.node, params=('refaddr',), inline=False)
    tr = expr.assign_trace(h.node, henv)
    ctx.ob('J-BISECT', h.construct, 'start from the nearest cached unit <= address, else 0',
           tr.get('i') == [('=', 'bisect_right(_cu_offsets_map,refaddr)')] and tr.get('start') == [('=', expr.spec_nf('_cu_offsets_map[i - 1] if i > 0 else 0'))],
           got=(tr.get('i'), tr.get('start')))
    tests = [n for n in ast.walk(h.node) if isinstance(n, ast.If)]
    got = expr.cond_tt(tests[0].test, henv) if tests else None
    eq = False
    if got is not None:
        eq, cex, n = expr.tt_equiv(got, expr.spec_tt('cu_offset <= refaddr < cu_offset + size'))
    ctx.ob('E-iii', h.construct, 'hit iff cu_offset <= refaddr < cu_offset + size', eq, msg='a unit contains the offsets of its own extent, end exclusive')
    conds = [expr.cond_str(n.args[0], henv) for n in ast.walk(h.node) if isinstance(n, ast.Call) and isinstance(n.func, ast.Name) and n.func.id == 'dwarf_assert']
    ctx.ob('E-iii', h.construct, 'bounds assertion 0 <= refaddr < section size', expr.spec_cond('0 <= refaddr < size') in conds, got=conds)
    loops = [n for n in ast.walk(h.node) if isinstance(n, ast.For)]
    ctx.ob('J-BISECT', h.construct, 'walks units from start', len(loops) == 1 and expr.nfs(loops[0].iter, henv) == '_parse_CUs_iter(self,start)')
    k = w.model.func(DI, 'DWARFInfo.get_CU_at')
    kenv = expr.FEnv(k.node, params=('offset',))
    rets = [expr.nfs(r.value, kenv) for r in expr.returns_of(k.node)]
    ctx.ob('J-BISECT', k.construct, 'exact lookup through the bisect cache', rets == ['_cached_CU_at_offset(self,offset)'], got=rets)
    conds = [expr.cond_str(n.args[0], kenv) for n in ast.walk(k.node) if isinstance(n, ast.Call) and isinstance(n.func, ast.Name) and n.func.id == 'dwarf_assert']
    ctx.ob('E-iii', k.construct, 'bounds assertion', expr.spec_cond('0 <= offset < size') in conds, got=conds)


MUTANTS = [
    ('aranges-pad-section-relative', 'dwarf/aranges.py', "fp = self.stream.tell() - offset", "fp = self.stream.tell()", 'E-i'),
    ('aranges-pad-no-rebase', 'dwarf/aranges.py', "self.stream.seek(offset + seek_to)", "self.stream.seek(seek_to)", 'E-i'),
    ('aranges-pad-container-size', 'dwarf/aranges.py', 'tuple_size = aranges_header["address_size"] * 2', 'tuple_size = self.structs.address_size * 2', 'G-OWNER'),
    ('aranges-offset-width', 'dwarf/structs.py', "            self.Dwarf_offset('debug_info_offset'), # a little tbd", "            self.Dwarf_uint32('debug_info_offset'), # a little tbd", 'L-CONF'),
    ('namelut-length', 'dwarf/structs.py', "self.Dwarf_length('debug_info_length')", "self.Dwarf_uint32('debug_info_length')", 'L-CONF'),
    ('hdr-cu-ofs-dropped', NL, "die_ofs = hdr_cu_ofs + entry.die_ofs)", "die_ofs = entry.die_ofs)", 'W-LUT'),
    ('range-le', AR, "if tup.begin_addr <= addr < tup.begin_addr + tup.length:", "if tup.begin_addr <= addr <= tup.begin_addr + tup.length:", 'E-iii'),
    ('cu-contain-le', DI, "if cu.cu_offset <= refaddr < cu.cu_offset + cu.size:", "if cu.cu_offset <= refaddr <= cu.cu_offset + cu.size:", 'E-iii'),
    ('bisect-left', DI, "        i = bisect_right(self._cu_offsets_map, offset)\n        if i >= 1", "        i = bisect_left(self._cu_offsets_map, offset)\n        if i >= 1", 'J-BISECT'),
    ('insert-append', DI, "self._cu_cache.insert(i, cu)", "self._cu_cache.append(cu)", 'J-BISECT'),
    ('aranges-next', AR, "            offset = (offset\n                + aranges_header.unit_length\n                + self.structs.initial_length_field_size())", "            offset = (offset\n                + aranges_header.unit_length\n                + 4)", None),
    ('addr8-u32', AR, "        else:\n            assert addr_header_value == 8\n            return self.structs.Dwarf_uint64", "        else:\n            assert addr_header_value == 8\n            return self.structs.Dwarf_uint32", 'L-CONF'),
    ('keys-unsorted', AR, "        self.entries.sort(key=lambda entry: entry.begin_addr)\n", "", 'E-i'),
    ('lut-sorted', NL, "        return (entries, cu_headers)", "        return (dict(sorted(entries.items())), cu_headers)", 'W-LUT'),
    ('lut-entry-cu', DI, "cu = self.get_CU_at(lut_entry.cu_ofs)", "cu = self.get_CU_containing(lut_entry.die_ofs - 1)", 'W-LUT'),
    ('start-i', DI, "start = self._cu_offsets_map[i - 1] if i > 0 else 0", "start = self._cu_offsets_map[i] if i > 0 else 0", 'J-BISECT'),
    ('namelut-term', NL, "                if entry.die_ofs == 0:\n                    break", "                if entry.die_ofs == 0 and not entry.name:\n                    break", 'W-LUT'),
]
