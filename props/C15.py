"""C15 -- symbol-version sections resolve each symbol to its encoded version.

Decides (DESIGN.md §3 C15): layouts of the five version structs vs glibc; chain walks advance from the current
record by its next displacement, auxiliaries start at entry + aux displacement (I-REL); derived field names exist
in the matching struct (E-iv); names through the linked string table; get_version conditions; versym addressing.
"""
import ast
from sa.canon import U
from sa.world import get_world
from sa import elfconf, layout, expr, paths, streams, dispatch, literals, hrules
from sa.absint import FuncV, Obj
from sa.report import AnalysisError

GV = 'elf/gnuversions.py'


def run(ctx):
    w = get_world(ctx)
    ctx.explanation.append(
        'C15: Elf_Verneed/Vernaux/Verdef/Verdaux layouts vs glibc typedefs and Elf_Versym row (L-CONF); the two chain walks: '
        'position parsed, advance and auxiliary start in normal form over the derived field names (I-REL); the field-name '
        'derivation evaluated for both prefixes and every use, each derived name must be a field of the struct it is used '
        'on (E-iv); get_version / has_indexes conditions, versym accessor and link wiring (W-VER); H-CUR/H-YIELD.')
    for r, d in (('L-CONF', 'layout equals glibc typedef'), ('I-REL', 'next record is computed from the current record'),
                 ('E-iv', 'derived field names exist in the struct they index'), ('W-VER', 'version resolution wiring'),
                 ('H-CUR', 'cursor discipline'), ('L-ENUM', 'versym index enum')):
        ctx.rule(r, d)
    for name in ('Elf_Verneed', 'Elf_Vernaux', 'Elf_Verdef', 'Elf_Verdaux'):
        ctx.guard('L-CONF', name, elfconf.check_glibc_struct, ctx, w, name)
    ctx.guard('L-CONF', 'Elf_Versym', elfconf.check_hand_struct, ctx, w, 'Elf_Versym')
    ctx.guard('L-ENUM', 'ndx', elfconf.check_enum_field, ctx, w, 'Elf_Versym', 'ndx', 'ENUM_VERSYM')
    ctx.floor('L-CONF', 70)
    ctx.guard('I-REL', 'walks', check_walks, ctx, w)
    ctx.floor('I-REL', 8)
    ctx.guard('E-iv', 'field names', check_field_names, ctx, w)
    ctx.floor('E-iv', 10)
    ctx.guard('W-VER', 'resolution', check_resolution, ctx, w)
    ctx.floor('W-VER', 10)
    ctx.guard('H-CUR', 'cursor', hrules.run_h, ctx, w, [GV])
    # enumeration answers must not come out of a half-filled memo (shared with C10)
    from sa import partial
    ctx.rule('J-PARTIAL', 'the version entries are never served from a container that was filled between yields or one entry per query')
    ctx.guard('J-PARTIAL', 'partial containers', partial.check_partial, ctx, w, 'J-PARTIAL', [GV])
    ctx.floor('J-PARTIAL', 1)


def check_walks(ctx, w):
    f = w.model.func(GV, 'GNUVersionSection.iter_versions')
    env = expr.FEnv(f.node)
    tr = expr.assign_trace(f.node, env)
    nf = lambda n, aux=False: "_field_name(self,'%s'%s)" % (n, ',1' if aux else '')
    want_off = [('=', 'sh_offset'), ('+=', 'index(entry,%s)' % nf('next'))]
    # `entry` is assigned once inside the loop -> inlined: accept both spellings
    got = tr.get('entry_offset')
    ok = got is not None and len(got) == 2 and got[0] == ('=', 'sh_offset') and got[1][0] == '+=' and \
        got[1][1].startswith('index(') and got[1][1].endswith(',%s)' % nf('next'))
    ctx.ob('I-REL', f.construct, 'entry_offset starts at sh_offset, advances by this entry\'s <prefix>_next', ok, got=got, expected=want_off,
           msg='version entries must be chained through the next displacement of the current record')
    ops = [o.t() for o in streams.func_ops(f.node, env) if o.kind == 'parse']
    ctx.ob('I-REL', f.construct, 'entry parsed at entry_offset with version_struct', ops == [('parse', 'stream', 'version_struct', 'entry_offset')], got=ops)
    loops = [n for n in ast.walk(f.node) if isinstance(n, ast.For)]
    ctx.ob('I-REL', f.construct, 'sh_info entries', len(loops) == 1 and expr.nfs(loops[0].iter, env) == 'range(num_versions(self))',
           got=[expr.nfs(l.iter, env) for l in loops])
    # aux start = entry_offset + entry[aux]; count = entry[cnt]
    calls = [c for c in ast.walk(f.node) if isinstance(c, ast.Call) and dispatch.callee_name(c) == 'self._iter_version_auxiliaries']
    got = [expr.nfs(a, env) for a in calls[0].args] if calls else None
    ok = got is not None and len(got) == 2 and got[0].startswith('entry_offset + index(') and got[0].endswith(',%s)' % nf('aux')) and \
        got[1].startswith('index(') and got[1].endswith(',%s)' % nf('cnt'))
    ctx.ob('I-REL', f.construct, 'auxiliaries start at entry_offset + <prefix>_aux, count <prefix>_cnt', ok, got=got,
           msg='auxiliary chain must start at the entry position plus its aux displacement')
    # the advance is the last statement of the loop body, after the yield
    # (over the paths of one iteration: the ones that stay in the loop end with the advance; the walk may leave only at a zero `next`)
    ok = len(loops) == 1
    for p in (paths.enum_paths(loops[0].body) if ok else []):
        stm = [ev[1] for ev in p.events if ev[0] == 'stmt']
        if p.end[0] == 'fall':
            ok = ok and bool(stm) and isinstance(stm[-1], ast.AugAssign) and U(stm[-1].target) == 'entry_offset' and \
                any(isinstance(y, ast.Yield) for st in stm[:-1] for y in ast.walk(st))
        elif p.end[0] == 'break':
            facts = expr.Facts(expr.CP(expr.cond_str(t, env), pol) for t, pol in p.conds(asserts=False))
            zero = [k for k, v in facts.items() if v is True and k.startswith('[index(') and k.endswith(',%s) == 0]' % nf('next'))]
            ok = ok and len(zero) == 1 and any(isinstance(y, ast.Yield) for st in stm for y in ast.walk(st))
        elif p.end[0] != 'raise':
            ok = False
    ctx.ob('I-REL', f.construct, 'advance is the unconditional last step', ok)
    g = w.model.func(GV, 'GNUVersionSection.num_versions')
    got = [expr.nfs(r.value, expr.FEnv(g.node)) for r in expr.returns_of(g.node)]
    ctx.ob('I-REL', g.construct, 'count = sh_info', got == ['sh_info'], got=got)
    f = w.model.func(GV, 'GNUVersionSection._iter_version_auxiliaries')
    env = expr.FEnv(f.node, params=('entry_offset', 'count'))
    tr = expr.assign_trace(f.node, env)
    got = tr.get('entry_offset')
    ok = got is not None and len(got) == 1 and got[0][0] == '+=' and got[0][1].startswith('index(') and got[0][1].endswith(',%s)' % nf('next', True))
    ctx.ob('I-REL', f.construct, 'advance by this auxiliary\'s <prefix>a_next', ok, got=got)
    ops = [o.t() for o in streams.func_ops(f.node, env) if o.kind == 'parse']
    ctx.ob('I-REL', f.construct, 'auxiliary parsed at entry_offset', ops == [('parse', 'stream', 'version_auxiliaries_struct', 'entry_offset')], got=ops)
    loops = [n for n in ast.walk(f.node) if isinstance(n, ast.For)]
    ctx.ob('I-REL', f.construct, 'count auxiliaries', len(loops) == 1 and expr.nfs(loops[0].iter, env) == 'range(count)')
    # the name handed to the VersionAuxiliary (second argument / name=), through a local or written in place
    mk = [c for c in ast.walk(f.node) if isinstance(c, ast.Call) and dispatch.callee_name(c) == 'VersionAuxiliary']
    arg = None
    if len(mk) == 1:
        arg = mk[0].args[1] if len(mk[0].args) > 1 else next((k.value for k in mk[0].keywords if k.arg == 'name'), None)
    if isinstance(arg, ast.Name):
        got = tr.get(arg.id)
    else:
        got = [('=', expr.nfs(arg, env))] if arg is not None else None
    ok = got is not None and len(got) == 1 and got[0][1].startswith('get_string(stringtable,index(') and got[0][1].endswith(',%s))' % nf('name', True))
    ctx.ob('I-REL', f.construct, 'name from the linked string table at <prefix>a_name', ok, got=got)


def check_field_names(ctx, w):
    """Evaluate _field_name(name, auxiliary) with the analyser's interpreter for both prefixes and every call site."""
    interp = w.interp
    fn = w.model.func(GV, 'GNUVersionSection._field_name')
    # collect call sites: (name literal, auxiliary flag)
    uses = set()
    for q in ('GNUVersionSection.iter_versions', 'GNUVersionSection._iter_version_auxiliaries'):
        f = w.model.func(GV, q)
        for c in ast.walk(f.node):
            if isinstance(c, ast.Call) and dispatch.callee_name(c) == 'self._field_name':
                if not (c.args and isinstance(c.args[0], ast.Constant)):
                    raise AnalysisError('E-iv', f.construct, 'non-literal field name')
                aux = False
                for k in c.keywords:
                    if k.arg == 'auxiliary':
                        aux = bool(getattr(k.value, 'value', False))
                if len(c.args) > 1:
                    aux = bool(getattr(c.args[1], 'value', False))
                uses.add((c.args[0].value, aux))
    # prefixes from the subclass constructors
    prefixes = {}
    for cn, mainst, auxst in (('GNUVerNeedSection', 'Elf_Verneed', 'Elf_Vernaux'), ('GNUVerDefSection', 'Elf_Verdef', 'Elf_Verdaux')):
        f = w.model.func(GV, cn + '.__init__')
        env = expr.FEnv(f.node, params=('header', 'name', 'elffile', 'stringtable'))
        calls = [c for c in ast.walk(f.node) if isinstance(c, ast.Call) and isinstance(c.func, ast.Attribute) and c.func.attr == '__init__']
        if not calls:
            raise AnalysisError('E-iv', f.construct, 'super().__init__ call not found')
        args = calls[0].args
        pre = args[4].value if len(args) > 4 and isinstance(args[4], ast.Constant) else None
        got_structs = [expr.nfs(a, env) for a in args[5:7]]
        ctx.ob('E-iv', f.construct, 'structs', got_structs == [mainst, auxst], got=got_structs, expected=[mainst, auxst],
               msg='version section is parsed with the wrong entry/auxiliary structs')
        ctx.ob('E-iv', f.construct, 'stringtable/header forwarded', [expr.nfs(a, env) for a in args[:4]] == ['header', 'name', 'elffile', 'stringtable'])
        prefixes[cn] = (pre, mainst, auxst)
    st = elfconf.structs_for(w, True, 64)
    cv = interp.class_value(w.model.cls('GNUVersionSection'))
    for cn, (pre, mainst, auxst) in sorted(prefixes.items()):
        obj = Obj(cv)
        obj.attrs['field_prefix'] = pre
        m = interp.getattr(obj, '_field_name')
        for name, aux in sorted(uses):
            derived = interp.call_func(m, [name], {'auxiliary': aux}, None)
            sname = auxst if aux else mainst
            fields = layout.field_names(elfconf.irb(w).to_ir(layout.struct_attr(w, st, sname)))
            ctx.ob('E-iv', GV + ':' + cn, '%s(%r, auxiliary=%s)' % (pre, name, aux), derived in fields,
                   msg='derived field name is not a field of the struct it indexes (KeyError for every input)',
                   got=derived, expected='a field of ' + sname, sample='%s: %r -> %s in %s' % (cn, name, derived, sname))
            want = '%s%s%s' % (pre, 'a_' if aux else '_', name)
            ctx.ob('E-iv', GV + ':' + cn, 'derivation %s' % want, derived == want, got=derived, expected=want)


def check_resolution(ctx, w):
    f = w.model.func(GV, 'GNUVerNeedSection.get_version')
    env = expr.FEnv(f.node, params=('index',))
    rp = paths.returns_with_conds(f.node)
    hit = [r for c, r, p in rp if any(expr.cond_str(t, env) == expr.spec_cond('vna_other == index') and pol for t, pol in c)]
    ctx.ob('W-VER', f.construct, 'returns the (verneed, vernaux) whose vna_other == index',
           len(hit) == 1 and expr.nfs(hit[0], env) == 'tuple(verneed,vernaux)', got=[expr.nfs(h, env) for h in hit])
    others = [expr.nfs(r, env) for c, r, p in rp if not any(expr.cond_str(t, env) == expr.spec_cond('vna_other == index') and pol for t, pol in c)]
    ctx.ob('W-VER', f.construct, 'None when no auxiliary carries the index', set(others) == {'None'}, got=sorted(set(others)))
    allc = sorted(set(expr.cond_str(t, env) for c, r, p in rp for t, pol in c))
    ctx.ob('W-VER', f.construct, 'the only test is vna_other == index', allc == [expr.spec_cond('vna_other == index')], got=allc,
           msg='any further condition on the index makes the lookup miss an encoded entry (indexes need not be dense or ordered)')
    loops = sorted([n for n in ast.walk(f.node) if isinstance(n, ast.For)], key=lambda n: n.lineno)
    ok = len(loops) == 2 and expr.nfs(loops[0].iter, env) == 'iter_versions(self)' and isinstance(loops[0].target, ast.Tuple) and \
        expr.nfs(loops[1].iter, env) == loops[0].target.elts[1].id
    ctx.ob('W-VER', f.construct, 'searches every auxiliary of every requirement', ok)
    f = w.model.func(GV, 'GNUVerDefSection.get_version')
    env = expr.FEnv(f.node, params=('index',))
    rp = paths.returns_with_conds(f.node)
    hit = [r for c, r, p in rp if any(expr.cond_str(t, env) == expr.spec_cond('vd_ndx == index') and pol for t, pol in c)]
    ctx.ob('W-VER', f.construct, 'returns the definition whose vd_ndx == index', len(hit) == 1 and expr.nfs(hit[0], env) == 'tuple(verdef,verdaux_iter)',
           got=[expr.nfs(h, env) for h in hit])
    others = [expr.nfs(r, env) for c, r, p in rp if not any(expr.cond_str(t, env) == expr.spec_cond('vd_ndx == index') and pol for t, pol in c)]
    ctx.ob('W-VER', f.construct, 'None when no definition carries the index', set(others) == {'None'}, got=sorted(set(others)))
    allc = sorted(set(expr.cond_str(t, env) for c, r, p in rp for t, pol in c))
    ctx.ob('W-VER', f.construct, 'the only test is vd_ndx == index', allc == [expr.spec_cond('vd_ndx == index')], got=allc,
           msg='any further condition on the index makes the lookup miss an encoded entry (indexes need not be dense or ordered)')
    dl = [n for n in ast.walk(f.node) if isinstance(n, ast.For)]
    ctx.ob('W-VER', f.construct, 'searches every definition', len(dl) == 1 and expr.nfs(dl[0].iter, env) == 'iter_versions(self)')
    f = w.model.func(GV, 'GNUVerNeedSection.iter_versions')
    env = expr.FEnv(f.node)
    tr = expr.assign_trace(f.node, env)
    ctx.ob('W-VER', f.construct, 'file name from the string table at vn_file', tr.get('verneed.name') == [('=', 'get_string(stringtable,vn_file)')],
           got=tr.get('verneed.name'))
    ys = [expr.nfs(y.value, env) for y in ast.walk(f.node) if isinstance(y, ast.Yield)]
    ctx.ob('W-VER', f.construct, 'yields every (verneed, vernaux)', ys == ['tuple(verneed,vernaux)'], got=ys)
    f = w.model.func(GV, 'GNUVerNeedSection.has_indexes')
    env = expr.FEnv(f.node, inline=False)
    tr = expr.assign_trace(f.node, env)
    tests = [expr.cond_str(n.test, env) for n in ast.walk(f.node) if isinstance(n, ast.If)]
    ctx.ob('W-VER', f.construct, 'memo: False then True when some vna_other is set',
           tr.get('self._has_indexes') == [('=', '0'), ('=', '1')] and 'T(vna_other)' in tests and expr.spec_cond('_has_indexes is None') in tests,
           got=(tr.get('self._has_indexes'), tests))
    # versym
    f = w.model.func(GV, 'GNUVerSymSection.get_symbol')
    env = expr.FEnv(f.node, params=('n',))
    ops = [o.t() for o in streams.func_ops(f.node, env) if o.kind == 'parse']
    want = ('parse', 'stream', 'Elf_Versym', expr.spec_nf('sh_offset + n * sh_entsize'))
    ctx.ob('W-VER', f.construct, 'entry n at sh_offset + n*sh_entsize', ops == [want], got=ops, expected=want)
    got = [expr.nfs(r.value, env) for r in expr.returns_of(f.node)]
    want_r = 'Symbol(struct_parse(Elf_Versym,stream,%s),name(get_symbol(symboltable,n)))' % expr.spec_nf('sh_offset + n*sh_entsize')
    ctx.ob('W-VER', f.construct, 'paired with the name of dynamic symbol n', got == [want_r], got=got, expected=want_r)
    f = w.model.func(GV, 'GNUVerSymSection.num_symbols')
    got = [expr.nfs(r.value, expr.FEnv(f.node)) for r in expr.returns_of(f.node)]
    ctx.ob('W-VER', f.construct, 'count = sh_size // sh_entsize', got == [expr.spec_nf('sh_size // sh_entsize')], got=got)
    f = w.model.func(GV, 'GNUVerSymSection.iter_symbols')
    env = expr.FEnv(f.node)
    loops = [n for n in ast.walk(f.node) if isinstance(n, ast.For)]
    ys = [expr.nfs(y.value, env) for y in ast.walk(f.node) if isinstance(y, ast.Yield)]
    ok = len(loops) == 1 and expr.nfs(loops[0].iter, env) == 'range(num_symbols(self))' and ys == ['get_symbol(self,%s)' % loops[0].target.id]
    ctx.ob('W-VER', f.construct, 'one index per dynamic symbol, in order', ok)
    # link wiring in elffile (shared with C01's table, checked here for the three version sections)
    for helper, link, cls in (('_make_gnu_verneed_section', '_get_linked_strtab_section', 'GNUVerNeedSection'),
                              ('_make_gnu_verdef_section', '_get_linked_strtab_section', 'GNUVerDefSection'),
                              ('_make_gnu_versym_section', '_get_linked_symtab_section', 'GNUVerSymSection')):
        f = w.model.func('elf/elffile.py', 'ELFFile.' + helper)
        env = expr.FEnv(f.node, params=('section_header', 'name'))
        rets = [expr.nfs(r.value, env) for r in expr.returns_of(f.node)]
        kw = 'stringtable' if 'strtab' in link else 'symboltable'
        want = '%s(section_header,name,elffile=self,%s=%s(self,sh_link))' % (cls, kw, link)
        ctx.ob('W-VER', f.construct, 'linked section validated and passed', rets == [want], got=rets, expected=want)


MUTANTS = [
    ('vernaux-order', 'elf/structs.py', "self.Elf_half('vna_flags'),\n            self.Elf_half('vna_other'),", "self.Elf_half('vna_other'),\n            self.Elf_half('vna_flags'),", 'L-CONF'),
    ('verdef-cnt-word', 'elf/structs.py', "self.Elf_half('vd_cnt'),", "self.Elf_word('vd_cnt'),", 'L-CONF'),
    ('advance-sizeof', GV, "            if entry[next_field] == 0:\n                break\n            entry_offset += entry[next_field]\n\n\nclass GNUVerNeedSection",
     "            if entry[next_field] == 0:\n                break\n            entry_offset += self.version_struct.sizeof()\n\n\nclass GNUVerNeedSection", 'I-REL'),
    ('aux-section-relative', GV, "aux_entries_offset = entry_offset + entry[aux_field]", "aux_entries_offset = self['sh_offset'] + entry[aux_field]", 'I-REL'),
    ('aux-inverted', GV, "middle = 'a_' if auxiliary else '_'", "middle = '_' if auxiliary else 'a_'", 'E-iv'),
    ('ndx-ne', GV, "if verdef['vd_ndx'] == index:", "if verdef['vd_ndx'] != index:", 'W-VER'),
    ('vna-hash', GV, "if vernaux['vna_other'] == index:", "if vernaux['vna_hash'] == index:", 'W-VER'),
    ('count-field', GV, "count_field = self._field_name('cnt')", "count_field = self._field_name('ndx')", None),
    ('aux-next-main', GV, "next_field = self._field_name('next', auxiliary=True)", "next_field = self._field_name('next')", None),
    ('versym-stride', GV, "entry_offset = self['sh_offset'] + n * self['sh_entsize']\n        entry = struct_parse(\n            self.structs.Elf_Versym,", "entry_offset = self['sh_offset'] + n * 4\n        entry = struct_parse(\n            self.structs.Elf_Versym,", 'W-VER'),
    ('versym-name', GV, "name = self.symboltable.get_symbol(n).name\n        return Symbol(entry, name)\n\n    def iter_symbols(self):\n        \"\"\" Yield all the symbols in the table\n        \"\"\"\n        for i in range(self.num_symbols()):", "name = self.symboltable.get_symbol(n + 1).name\n        return Symbol(entry, name)\n\n    def iter_symbols(self):\n        \"\"\" Yield all the symbols in the table\n        \"\"\"\n        for i in range(self.num_symbols()):", 'W-VER'),
    ('vn-file', GV, "verneed.name = self.stringtable.get_string(verneed['vn_file'])", "verneed.name = self.stringtable.get_string(verneed['vn_aux'])", 'W-VER'),
    ('verdef-structs', GV, "elffile.structs.Elf_Verdef, elffile.structs.Elf_Verdaux)", "elffile.structs.Elf_Verdef, elffile.structs.Elf_Vernaux)", 'E-iv'),
    ('num-versions', GV, "return self['sh_info']", "return self['sh_link']", 'I-REL'),
    ('versym-link', 'elf/elffile.py', "        linked_symtab_index = section_header['sh_link']\n        symtab_section = self._get_linked_symtab_section(linked_symtab_index)\n        return GNUVerSymSection(", "        linked_symtab_index = section_header['sh_info']\n        symtab_section = self._get_linked_symtab_section(linked_symtab_index)\n        return GNUVerSymSection(", 'W-VER'),
]
