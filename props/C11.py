"""C11 -- the DWARF view is invariant under container encoding of the same debug data.

Invariance of dumps is a relation between executions; decided is the construction that makes it hold
(DESIGN.md §3 C11): layering (dwarf layer sees only stream/size/address), name->keyword wiring incl. the .zdebug
renaming, every descriptor decoded (R-MPT) with the legacy framing checks dominating (R-DOM), debug-link CRC check
dominating the linked file, follow_links control dependence, has_dwarf_info formula, supplementary-link order.
"""
import ast
from sa.canon import U
from sa.world import get_world
from sa import elfconf, dwconf, layout, expr, paths, streams, dispatch
from sa.absint import FuncV, Unknown
from sa.report import AnalysisError
from spec import elf as S, dwarf as D

EF = 'elf/elffile.py'
DI = 'dwarf/dwarfinfo.py'
ALLOWED_DESC_ATTRS = {'stream', 'size', 'address'}


def run(ctx):
    w = get_world(ctx)
    ctx.explanation.append(
        'C11: no module of elftools/dwarf imports elftools/elf and the DWARF layer reads only stream/size/address of a section '
        'descriptor (LAYER); each DWARFInfo keyword receives the descriptor looked up under its own section name, derived from tuple '
        'position and the evaluated .zdebug renaming (W-NAME); every stored descriptor passes through _read_dwarf_section (fresh '
        'BytesIO over section.data(), logical size) and .z names additionally through _decompress_dwarf_section whose magic/size '
        'checks dominate the return (R-MPT/R-DOM); debug-link CRC mismatch raises before the linked file is opened for DWARF, the CRC '
        'folds every chunk from 0, both loader call sites depend on follow_links (R-DOM); has_dwarf_info formula (E-iii); '
        'supplementary link order; link struct layouts (L-CONF).')
    ctx.assumptions += ['zlib inflation and equality of dumps across re-encodings are runtime relations (not decided)']
    for r, d in (('LAYER', 'DWARF layer independent of the container'), ('W-NAME', 'section name -> DWARFInfo keyword wiring'),
                 ('R-MPT', 'every descriptor goes through the decoding steps'), ('R-DOM', 'framing/CRC checks dominate'),
                 ('E-iii', 'presence formula'), ('W-SUP', 'supplementary link'), ('L-CONF', 'link struct layouts')):
        ctx.rule(r, d)
    ctx.guard('LAYER', 'layering', check_layering, ctx, w)
    ctx.floor('LAYER', 20)
    ctx.guard('W-NAME', 'wiring', check_wiring, ctx, w)
    ctx.floor('W-NAME', 40)
    ctx.guard('R-MPT', 'decoding', check_decoding, ctx, w)
    ctx.floor('R-MPT', 6)
    ctx.guard('R-DOM', 'framing and link', check_dom, ctx, w)
    ctx.floor('R-DOM', 8)
    ctx.guard('E-iii', 'has_dwarf_info', check_presence, ctx, w)
    ctx.guard('W-SUP', 'supplementary', check_sup, ctx, w)
    ctx.floor('W-SUP', 5)
    # what a supplementary-form attribute resolves to is part of "the same view behind a supplementary link" (rule shared with C04)
    from props import C04
    ctx.rule('G-TRANS', 'strp reads this file\'s string table, strp_sup/GNU_strp_alt the supplementary file\'s, each through its own DWARFInfo')
    ctx.guard('G-TRANS', 'string forms', C04.check_translate, ctx, w)
    ctx.floor('G-TRANS', 12)
    ctx.guard('L-CONF', 'Gnu_debuglink', elfconf.check_hand_struct, ctx, w, 'Gnu_debuglink')
    cfgs = [c for c in dwconf.CONFIGS_QUICK if c[2] == 4 and c[1] == 32]
    ctx.guard('L-CONF', 'debugsup', dwconf.check_struct, ctx, w, 'Dwarf_debugsup', D.DEBUGSUP, ({},), cfgs)
    ctx.guard('L-CONF', 'debugaltlink', dwconf.check_struct, ctx, w, 'Dwarf_debugaltlink', D.DEBUGALTLINK, ({},), cfgs)
    ctx.floor('L-CONF', 40)


def check_layering(ctx, w):
    n = 0
    for rel, tree in sorted(w.model.trees.items()):
        if not rel.startswith('elftools/dwarf/'):
            continue
        n += 1
        bad = []
        for st in ast.walk(tree):
            if isinstance(st, ast.ImportFrom):
                target = w.model._resolve_import(rel, st.module, st.level)
                if isinstance(target, str) and (target.startswith('elftools/elf/') or target.startswith('elftools.elf') or target == 'elftools/elf'):
                    bad.append(U(st))
            elif isinstance(st, ast.Import):
                for a in st.names:
                    if a.name.startswith('elftools.elf'):
                        bad.append(U(st))
        ctx.ob('LAYER', rel.replace('elftools/', ''), 'no import from elftools/elf', not bad, got=bad,
               msg='the DWARF layer must depend only on the section descriptors, not on the ELF container', sample='%s imports nothing from elftools.elf' % rel)
        # descriptor attribute reads
        used = set()
        for x in ast.walk(tree):
            if isinstance(x, ast.Attribute) and isinstance(x.value, ast.Attribute) and x.value.attr.endswith('_sec') and isinstance(x.ctx, ast.Load):
                used.add(x.attr)
        extra = sorted(used - ALLOWED_DESC_ATTRS)
        ctx.ob('LAYER', rel.replace('elftools/', ''), 'descriptor fields read: only stream/size/address', not extra, got=extra,
               msg='DWARF results must not depend on the section name or its file offset')
    if n < 15:
        raise AnalysisError('LAYER', 'elftools/dwarf', 'only %d dwarf modules found' % n)
    # the descriptor type
    tree = w.model.tree(DI)
    ok = any(isinstance(st, ast.Assign) and U(st).replace('"', "'") ==
             "DebugSectionDescriptor = namedtuple('DebugSectionDescriptor', 'stream name global_offset size address')" for st in tree.body)
    ctx.ob('LAYER', DI, 'descriptor = (stream, name, global_offset, size, address)', ok)


def check_wiring(ctx, w):
    f = w.model.func(EF, 'ELFFile.get_dwarf_info')
    # 1. section_names tuple literal
    names = None
    for st in ast.walk(f.node):
        if isinstance(st, ast.Assign) and U(st.targets[0]) == 'section_names' and isinstance(st.value, ast.Tuple):
            names = [e.value for e in st.value.elts if isinstance(e, ast.Constant)]
    if not names:
        raise AnalysisError('W-NAME', f.construct, 'section name tuple not found')
    # 2. the renaming statement (section_names = tuple(<map / generator / comprehension over section_names>)) evaluated by the
    #    analyser's own interpreter on the tuple of names
    from sa.absint import Env, Unknown as _Unk
    ren = [st for st in ast.walk(f.node) if isinstance(st, ast.Assign) and U(st.targets[0]) == 'section_names' and not isinstance(st.value, ast.Tuple) and
           any(isinstance(x, ast.Name) and x.id == 'section_names' for x in ast.walk(st.value))]
    if len(ren) != 1:
        raise AnalysisError('W-NAME', f.construct, '.zdebug renaming not found')
    env = Env(mod=w.model.relpath(EF))
    env.vars['section_names'] = tuple(names)
    res = w.interp.eval(ren[0].value, env)
    if isinstance(res, _Unk) or not isinstance(res, (tuple, list)) or len(res) != len(names):
        raise AnalysisError('W-NAME', f.construct, '.zdebug renaming not evaluable: %r' % (res,))
    renamed = []
    for nm, r in zip(names, res):
        want = ('.z' + nm[1:]) if nm.startswith('.debug_') else nm
        renamed.append(r)
        ctx.ob('W-NAME', f.construct, 'legacy-compressed name of %s' % nm, r == want, got=r, expected=want,
               msg='GNU legacy compression renames .debug_<x> to .zdebug_<x> and nothing else (the alt link section keeps its name)',
               sample='%s -> %s under .zdebug' % (nm, want))
    # 3. appended .eh_frame, unpack order, kwargs
    src = U(f.node)
    app = [st for st in ast.walk(f.node) if isinstance(st, ast.AugAssign) and U(st.target) == 'section_names' and U(st.value) == "('.eh_frame',)"]
    ctx.ob('W-NAME', f.construct, '.eh_frame appended after the renaming', len(app) == 1 and app[0].lineno > ren[0].lineno)
    unpack = None
    for st in ast.walk(f.node):
        if isinstance(st, ast.Assign) and isinstance(st.targets[0], ast.Tuple) and U(st.value) == 'section_names':
            unpack = [e.id for e in st.targets[0].elts]
    allnames = names + ['.eh_frame']
    if unpack is None or len(unpack) != len(allnames):
        raise AnalysisError('W-NAME', f.construct, 'unpacking of section_names not found / wrong arity')
    var2name = dict(zip(unpack, allnames))
    mk = [c for c in ast.walk(f.node) if isinstance(c, ast.Call) and dispatch.callee_name(c) == 'DWARFInfo']
    if len(mk) != 1:
        raise AnalysisError('W-NAME', f.construct, 'DWARFInfo construction not found')
    got = {}
    for k in mk[0].keywords:
        v = k.value
        if isinstance(v, ast.Subscript) and U(v.value) == 'debug_sections' and isinstance(v.slice, ast.Name):
            got[k.arg] = var2name.get(v.slice.id)
    for k in sorted(got):
        if k == 'eh_frame_sec':
            want = '.eh_frame'
        elif k == 'gnu_debugaltlink_sec':
            want = '.gnu_debugaltlink'
        else:
            want = '.' + k[:-4]
        ctx.ob('W-NAME', f.construct, 'keyword %s' % k, got[k] == want, got=got[k], expected=want,
               msg='a DWARFInfo section parameter receives the descriptor of another section', sample='DWARFInfo(%s=<%s>)' % (k, want))
    ctx.ob('W-NAME', f.construct, 'all 19 sections wired', len(got) == 19, got=len(got))
    # 4. DWARFInfo.__init__ stores each parameter under its own name
    g = w.model.func(DI, 'DWARFInfo.__init__')
    params = [a.arg for a in g.node.args.args if a.arg.endswith('_sec')]
    tr = expr.assign_trace(g.node, expr.FEnv(g.node, inline=False))
    for p in params:
        ctx.ob('W-NAME', g.construct, 'self.%s = %s' % (p, p), tr.get('self.' + p) == [('=', p)], got=tr.get('self.' + p))
    ctx.ob('W-NAME', g.construct, 'nineteen section parameters', len(params) == 19, got=len(params))
    # 5. lookup loop: each name through get_section_by_name; missing -> None
    loops = [n for n in ast.walk(f.node) if isinstance(n, ast.For) and U(n.iter) == 'section_names']
    ok = len(loops) == 1 and 'section = self.get_section_by_name(secname)' in U(loops[0]) and 'debug_sections[secname] = None' in U(loops[0])
    ctx.ob('W-NAME', f.construct, 'every name looked up; absent -> None', ok)
    ctx.ob('W-NAME', f.construct, 'compressed iff .zdebug_info exists', "compressed = self.has_section('.zdebug_info')" in src)
    cfg = [c for c in ast.walk(f.node) if isinstance(c, ast.Call) and dispatch.callee_name(c) == 'DwarfConfig']
    kw = dict((k.arg, U(k.value)) for k in cfg[0].keywords) if cfg else None
    ctx.ob('W-NAME', f.construct, 'config from the file header', kw == {'little_endian': 'self.little_endian', 'default_address_size': 'self.elfclass // 8',
                                                                     'machine_arch': 'self.get_machine_arch()'}, got=kw)


def check_decoding(ctx, w):
    f = w.model.func(EF, 'ELFFile.get_dwarf_info')
    loops = [n for n in ast.walk(f.node) if isinstance(n, ast.For) and U(n.iter) == 'section_names']
    if len(loops) != 1:
        raise AnalysisError('R-MPT', f.construct, 'section loop not found')
    lp = loops[0]
    env = expr.FEnv(f.node, inline=False)
    # every path that stores a non-None descriptor passes _read_dwarf_section; .z names pass _decompress_dwarf_section
    ok_read = ok_z = True
    n_store = 0
    for p in paths.enum_paths(lp.body):
        stores = [s for s in p.stmts() if isinstance(s, ast.Assign) and U(s.targets[0]) == 'debug_sections[secname]']
        if not stores or U(stores[-1].value) == 'None':
            continue
        n_store += 1
        src = ' '.join(U(s) for s in p.stmts())
        if 'dwarf_section = self._read_dwarf_section(section, relocate_dwarf_sections)' not in src or U(stores[-1].value) != 'dwarf_section':
            ok_read = False
        conds = expr.Facts(expr.CP(expr.cond_str(t, env), pol) for t, pol in p.conds())
        z = conds.truth("compressed and startswith(secname, '.z')")
        if z is None:
            ok_z = False
        elif z and 'dwarf_section = self._decompress_dwarf_section(dwarf_section)' not in src:
            ok_z = False
        elif not z and '_decompress_dwarf_section' in src:
            ok_z = False
    ctx.ob('R-MPT', f.construct, 'every stored descriptor comes from _read_dwarf_section', ok_read and n_store >= 2,
           msg='a debug section would reach DWARFInfo without the gABI decompression / relocation path')
    ctx.ob('R-MPT', f.construct, '.z sections (and only they) additionally pass _decompress_dwarf_section', ok_z,
           msg='legacy-compressed sections must be inflated before DWARFInfo sees them')
    g = w.model.func(EF, 'ELFFile._read_dwarf_section')
    genv = expr.FEnv(g.node, params=('section', 'relocate_dwarf_sections'), inline=False)
    tr = expr.assign_trace(g.node, genv)
    # Values read off the paths, separately for files with and without phantom bytes (so that a conditional expression and an
    # if statement are the same thing): what is written into the private stream, and the size/address the descriptor carries.
    import copy as _copy
    writes = [c for c in ast.walk(g.node) if isinstance(c, ast.Call) and isinstance(c.func, ast.Attribute) and c.func.attr == 'write' and
              isinstance(c.func.value, ast.Name)]
    mk = [c for c in ast.walk(g.node) if isinstance(c, ast.Call) and dispatch.callee_name(c) == 'DebugSectionDescriptor']
    ok_stream = ok_pay = ok_desc = bool(writes) and len(mk) == 1
    got_pay, got_desc = {}, {}
    n_paths = 0
    for assume in (True, False):
        for p in paths.func_paths(g.node):
            if p.end[0] != 'return':
                continue
            facts = expr.Facts(expr.CP(expr.cond_str(t, genv), pol) for t, pol in p.conds())
            if facts.contradiction or facts.get('T(phantom_bytes)') not in (None, assume) or facts.get('T(has_phantom_bytes(self))') not in (None, assume):
                continue
            n_paths += 1

            def val(node, upto=None):
                store = expr.path_store(p, upto)
                store['phantom_bytes'] = ast.Constant(value=assume)
                e = expr._StoreSubst(store).visit(_copy.deepcopy(node))
                # the path may have bound values *from* phantom_bytes before the override: substitute once more
                e = expr._StoreSubst({'phantom_bytes': ast.Constant(value=assume)}).visit(e)
                ast.fix_missing_locations(e)
                return expr.nfs(e, expr.FEnv())
            w0 = [c for c in writes if any(any(x is c for x in ast.walk(s)) for s in p.stmts())]
            if len(w0) != 1:
                ok_pay = False
                continue
            stream_val = val(w0[0].func.value, upto=w0[0])
            pay = val(w0[0].args[0], upto=w0[0])
            got_pay[assume] = pay
            if stream_val != 'BytesIO()':
                ok_stream = False
            if pay != ('slice(data(section),,,2)' if assume else 'data(section)'):
                ok_pay = False
            kw = dict((k.arg, val(k.value, upto=mk[0])) for k in mk[0].keywords)
            got_desc[assume] = kw
            want = {'stream': 'BytesIO()', 'name': 'name', 'global_offset': 'sh_offset',
                    'size': 'floordiv(data_size,2)' if assume else 'data_size', 'address': 'sh_addr'}
            if kw != want:
                ok_desc = False
    ctx.ob('R-MPT', g.construct, 'fresh BytesIO over section.data()', ok_stream and n_paths >= 2, got=got_pay,
           msg='one private stream per section over the (gABI-decompressed) logical bytes')
    ctx.ob('R-MPT', g.construct, 'whole payload written (phantom bytes: every other byte)', ok_pay and set(got_pay) == {True, False}, got=got_pay)
    ctx.ob('R-MPT', g.construct, 'descriptor: stream, logical size, address', ok_desc and set(got_desc) == {True, False}, got=got_desc,
           msg='size must be the logical (decompressed) size, address the section address')
    h = w.model.func(EF, 'ELFFile.has_phantom_bytes')
    rets = [expr.nfs(r.value, expr.FEnv(h.node)) for r in expr.returns_of(h.node)]
    ctx.ob('R-MPT', h.construct, 'phantom bytes only for EM_DSPIC30F without the no-phantom flag', rets == [expr.spec_cond("e_machine == 'EM_DSPIC30F' and (e_flags & 0x80000000) == 0")], got=rets)


def check_dom(ctx, w):
    f = w.model.func(EF, 'ELFFile._decompress_dwarf_section')
    env = expr.FEnv(f.node, params=('section',), inline=False)
    rp = paths.returns_with_conds(f.node)
    need = [expr.spec_cond('size > 12'), expr.spec_cond("compression_type == b'ZLIB'"), expr.spec_cond('uncompressed_size == size')]
    ok = bool(rp)
    for conds, ret, p in rp:
        cs = expr.Facts(expr.CP(expr.cond_str(t, env), pol) for t, pol in conds)
        for n in need:
            if cs.get(n) is not True:
                ok = False
    ctx.ob('R-DOM', f.construct, 'magic, minimum size and inflated-size equality dominate the return', ok, got=[[expr.CP(expr.cond_str(t, env), pol) for t, pol in c] for c, r, p in rp][:1],
           expected=need, msg='legacy framing checks must hold on every returning path')
    tr = expr.assign_trace(f.node, env)
    ctx.ob('R-DOM', f.construct, '4-byte magic then 8-byte big-endian size from offset 0',
           tr.get('compression_type') == [('=', 'read(stream,4)')] and tr.get('uncompressed_size') == [('=', "index(unpack(struct,'>Q',read(stream,8)),0)")] and
           [o.t() for o in streams.func_ops(f.node, env)][:1] == [('seek', 'stream', '0', 'SEEK_SET')], got=(tr.get('compression_type'), tr.get('uncompressed_size')))
    src = U(f.node)
    # one iteration of the inflate loop: an empty read leaves the loop with nothing written, any other chunk is inflated and written
    lps = [n for n in ast.walk(f.node) if isinstance(n, ast.While)]
    seen = set()
    ok_l = len(lps) == 1
    for p in (paths.enum_paths(lps[0].body) if ok_l else []):
        ev = expr.path_events(p, env)
        stm = [x[1] for x in ev if x[0] == 's']
        cs = [x[1] for x in ev if x[0] == 'c']
        if cs == [expr.CP('T(chunk)', False)]:
            seen.add('end')
            ok_l = ok_l and stm == ['chunk = section.stream.read(4096)'] and p.end[0] == 'break'
        elif cs == [expr.CP('T(chunk)', True)]:
            seen.add('chunk')
            ok_l = ok_l and stm == ['chunk = section.stream.read(4096)', 'uncompressed_stream.write(decompressor.decompress(chunk))'] and p.end[0] == 'fall'
        else:
            ok_l = False
    ctx.ob('R-DOM', f.construct, 'every chunk inflated and the tail flushed', ok_l and seen == {'end', 'chunk'} and
           'uncompressed_stream.write(decompressor.flush())' in src, got=sorted(seen))
    ctx.ob('R-DOM', f.construct, 'size = measured size of the inflated stream; descriptor replaced',
           tr.get('size') == [('=', 'tell(uncompressed_stream)')] and 'return section._replace(stream=uncompressed_stream, size=size)' in src, got=tr.get('size'))
    # debug link
    g = w.model.func(EF, 'ELFFile.get_dwarf_info')
    genv = expr.FEnv(g.node, params=('relocate_dwarf_sections', 'follow_links'), inline=False)
    mk = [c for c in ast.walk(g.node) if isinstance(c, ast.Call) and dispatch.callee_name(c) == 'ELFFile']
    crc = expr.spec_cond('_file_crc32(ext_file) != checksum')
    ok = len(mk) == 1
    got = None
    if ok:
        for p in paths.paths_reaching(g.node, mk[0]):
            cs = expr.Facts(expr.CP(expr.cond_str(t, genv), pol) for t, pol in p.conds())
            got = cs
            if cs.get(crc) is not False:
                ok = False
    ctx.ob('R-DOM', g.construct, 'CRC comparison precedes the linked ELFFile on every path', ok, got=got, expected=crc,
           msg='a debug link whose checksum does not match its target must be rejected before its DWARF is used')
    raises = [p for p in paths.func_paths(g.node) if p.end[0] == 'raise' and expr.Facts(expr.CP(expr.cond_str(t, genv), pol) for t, pol in p.conds()).get(crc) is True]
    ctx.ob('R-DOM', g.construct, 'CRC mismatch raises ELFError', len(raises) >= 1 and all('ELFError' in U(p.end[1]) for p in raises))
    # both stream_loader call sites depend on follow_links
    sites = []
    for fn in (g, w.model.func(EF, 'ELFFile.get_supplementary_dwarfinfo')):
        for c in ast.walk(fn.node):
            if isinstance(c, ast.Call) and U(c.func) == 'self.stream_loader':
                sites.append((fn, c))
    ctx.ob('R-DOM', g.construct, 'two loader call sites', len(sites) == 2, got=len(sites))
    for fn, c in sites:
        if fn is g:
            okf = True
            for p in paths.paths_reaching(fn.node, c):
                cs = [expr.CP(expr.cond_str(t, genv), pol) for t, pol in p.conds()]
                if not any('T(follow_links)' in c0 and pol for c0, pol in cs):
                    okf = False
            ctx.ob('R-DOM', fn.construct, 'debug-link loader call depends on follow_links', okf)
    sup_calls = [c for c in ast.walk(g.node) if isinstance(c, ast.Call) and U(c.func) == 'self.get_supplementary_dwarfinfo']
    okf = len(sup_calls) == 1
    if okf:
        for p in paths.paths_reaching(g.node, sup_calls[0]):
            cs = expr.Facts(expr.CP(expr.cond_str(t, genv), pol) for t, pol in p.conds())
            if cs.get('T(follow_links)') is not True:
                okf = False
    ctx.ob('R-DOM', g.construct, 'supplementary loader reached only under follow_links', okf)
    cond = [n for n in ast.walk(g.node) if isinstance(n, ast.If) and 'debuglink_section' in U(n.test)]
    ctx.ob('R-DOM', g.construct, 'debug link followed only without own debug info, with follow_links and a loader',
           len(cond) == 1 and expr.cond_str(cond[0].test, genv) == expr.spec_cond('debuglink_section and not has_dwarf_info(self, True) and follow_links and stream_loader'),
           got=expr.cond_str(cond[0].test, genv) if cond else None)
    ctx.ob('R-DOM', g.construct, 'link parsed with Gnu_debuglink at the section offset',
           'debuglink = struct_parse(self.structs.Gnu_debuglink, debuglink_section.stream, debuglink_section.header.sh_offset)' in U(g.node))
    h = w.model.func('dwarf/dwarf_util.py', '_file_crc32')
    henv = expr.FEnv(h.node, params=('file',), inline=False)
    tr = expr.assign_trace(h.node, henv)
    ctx.ob('R-DOM', h.construct, 'CRC folds every chunk into one running value from 0',
           tr.get('checksum') == [('=', '0'), ('=', 'crc32(binascii,d,checksum)')] and tr.get('d') == [('=', 'read(file,4096)')] and      # one read at the head of each iteration (canonical loop form, N24/N21)
           [expr.nfs(r.value, henv) for r in expr.returns_of(h.node)] == ['checksum'], got=tr)


def check_presence(ctx, w):
    f = w.model.func(EF, 'ELFFile.has_dwarf_info')
    env = expr.FEnv(f.node, params=('strict',))
    got = expr.func_truth_formula(f.node, env)       # over returning paths: one boolean expression or guarded early returns alike
    want = expr.spec_tt("has_section(self, '.debug_info') or has_section(self, '.zdebug_info') or (not strict and has_section(self, '.eh_frame'))")
    eq = False
    if got is not None:
        eq, cex, n = expr.tt_equiv(got, want)
    ctx.ob('E-iii', f.construct, '.debug_info or .zdebug_info or (not strict and .eh_frame)', eq, msg='presence of debugging information reported under the wrong condition')
    d = f.node.args.defaults
    ctx.ob('E-iii', f.construct, 'strict defaults to False', len(d) == 1 and isinstance(d[0], ast.Constant) and d[0].value is False)


def check_sup(ctx, w):
    f = w.model.func(DI, 'DWARFInfo.parse_debugsupinfo')
    env = expr.FEnv(f.node, inline=False)
    rp = [([expr.CP(expr.cond_str(t, env), pol) for t, pol in c], expr.nfs(r, env)) for c, r, p in paths.returns_with_conds(f.node)]
    sup = expr.spec_cond('debug_sup_sec is not None')
    alt = expr.spec_cond('gnu_debugaltlink_sec is not None')
    is0 = expr.spec_cond('is_supplementary == 0')
    first = [r for r in rp if (sup, True) in r[0] and (is0, True) in r[0]]
    ctx.ob('W-SUP', f.construct, '.debug_sup (is_supplementary == 0) consulted first', len(first) == 1 and first[0][0][:2] == [(sup, True), (is0, True)] and first[0][1] == 'sup_filename',
           got=first)
    second = [r for r in rp if (alt, True) in r[0]]
    ctx.ob('W-SUP', f.construct, 'then .gnu_debugaltlink', len(second) >= 1 and all(r[1] == 'sup_filename' for r in second), got=second[:1])
    none = [r for r in rp if (alt, False) in r[0]]
    ctx.ob('W-SUP', f.construct, 'no link -> None', bool(none) and all(r[1] == 'None' for r in none))
    ops = [o.t() for o in streams.func_ops(f.node, env)]
    want = [('seek', 'stream', '0', 'SEEK_SET'), ('parse_stream', 'stream', 'Dwarf_debugsup'), ('seek', 'stream', '0', 'SEEK_SET'), ('parse_stream', 'stream', 'Dwarf_debugaltlink')]
    ctx.ob('W-SUP', f.construct, 'each link parsed from offset 0 of its own section', ops == want, got=ops, expected=want)
    g = w.model.func(EF, 'ELFFile.get_supplementary_dwarfinfo')
    genv = expr.FEnv(g.node, params=('dwarfinfo',), inline=False)
    # decision over the returning paths: something is loaded exactly when there is a link and a loader (one test or a guard clause)
    rws = expr.return_rows(g.node, genv)
    truths = [(expr.Facts(c).truth('supfilepath is not None and stream_loader is not None', genv), v) for c, v in rws]
    ctx.ob('W-SUP', g.construct, 'loaded only with a link and a loader', bool(truths) and all((t is True) == (v != 'None') and t is not None for t, v in truths) and
           any(v != 'None' for t, v in truths), got=truths)
    ctx.ob('W-SUP', g.construct, 'supplementary DWARF from the loaded file', 'supelffile = ELFFile(stream)' in U(g.node) and 'dwarf_info = supelffile.get_dwarf_info()' in U(g.node))
    h = w.model.func(EF, 'ELFFile.get_dwarf_info')
    ctx.ob('W-SUP', h.construct, 'supplementary info attached to the DWARFInfo', 'dwarfinfo.supplementary_dwarfinfo = self.get_supplementary_dwarfinfo(dwarfinfo)' in U(h.node))


MUTANTS = [
    ('names-exchanged', EF, "'.debug_loc', '.debug_ranges', '.debug_pubtypes',", "'.debug_ranges', '.debug_loc', '.debug_pubtypes',", 'W-NAME'),
    ('z-prefix', EF, "lambda x: '.z' + x[1:] if x.startswith('.debug_') else x", "lambda x: '.z' + x if x.startswith('.debug_') else x", 'W-NAME'),
    ('zdebug-skipped', EF, "                if compressed and secname.startswith('.z'):\n                    dwarf_section = self._decompress_dwarf_section(dwarf_section)\n", "", 'R-MPT'),
    ('crc-eq', EF, "if _file_crc32(ext_file) != debuglink.checksum:", "if _file_crc32(ext_file) == debuglink.checksum:", 'R-DOM'),
    ('not-strict-dropped', EF, "(not strict and self.has_section('.eh_frame')))", "self.has_section('.eh_frame'))", 'E-iii'),
    ('size-shsize', EF, "size=section.data_size//2 if phantom_bytes else section.data_size,", "size=section['sh_size']//2 if phantom_bytes else section['sh_size'],", 'R-MPT'),
    ('kw-swapped', EF, "debug_loclists_sec=debug_sections[debug_loclists_sec_name],\n                debug_rnglists_sec=debug_sections[debug_rnglists_sec_name],", "debug_loclists_sec=debug_sections[debug_rnglists_sec_name],\n                debug_rnglists_sec=debug_sections[debug_loclists_sec_name],", 'W-NAME'),
    ('size-check-gone', EF, "        assert uncompressed_size == size, \\\n", "        assert uncompressed_size >= size, \\\n", 'R-DOM'),
    ('follow-links-ignored', EF, "        if follow_links:\n            dwarfinfo.supplementary_dwarfinfo", "        if True:\n            dwarfinfo.supplementary_dwarfinfo", 'R-DOM'),
    ('crc-first-chunk', 'dwarf/dwarf_util.py', "        checksum = binascii.crc32(d, checksum)", "        checksum = binascii.crc32(d)", 'R-DOM'),
    ('sup-order', DI, "            if suplink.is_supplementary == 0:", "            if suplink.is_supplementary == 1:", 'W-SUP'),
    ('descriptor-name-used', 'dwarf/dwarfinfo.py', "        return bool(self.debug_info_sec)", "        return bool(self.debug_info_sec) and self.debug_info_sec.name == '.debug_info'", 'LAYER'),
    ('import-elf', 'dwarf/ranges.py', "from ..common.exceptions import DWARFError", "from ..common.exceptions import DWARFError\nfrom ..elf.constants import SH_FLAGS", 'LAYER'),
    ('init-store', DI, "        self.debug_loc_sec = debug_loc_sec\n", "        self.debug_loc_sec = debug_loclists_sec\n", 'W-NAME'),
    ('address', EF, "                address=section['sh_addr'])", "                address=section['sh_offset'])", 'R-MPT'),
    ('debuglink-pad', 'elf/structs.py', "Padding(lambda ctx: 3 - len(ctx.filename) % 4, strict=True),", "Padding(lambda ctx: 4 - len(ctx.filename) % 4, strict=True),", 'L-CONF'),
]
