"""C09 -- dynamic linking information is exact, with or without section headers.

Decides (DESIGN.md §3 C09): Elf_Dyn layout and tag-table selection; tag iteration structure (terminator yielded
before the loop exits, n+1 count, addressing); string tags; string-table selection wiring; structural equivalence of
the section and segment views (no overrides); symbol access and count recovery order without sections.
"""
import ast
from sa.canon import U
from sa.world import get_world
from sa import elfconf, layout, expr, paths, streams, dispatch, literals, hrules
from sa.report import AnalysisError

DYN = 'elf/dynamic.py'
STRING_TAGS = {'DT_NEEDED': 'needed', 'DT_RPATH': 'rpath', 'DT_RUNPATH': 'runpath', 'DT_SONAME': 'soname'}
SHARED = ['iter_tags', '_iter_tags', '_get_tag', 'get_tag', 'num_tags', 'get_relocation_tables', 'get_table_offset',
          '_get_stringtable']


def run(ctx):
    w = get_world(ctx)
    ctx.explanation.append(
        'C09: Elf_Dyn layout vs glibc and tag-table selection per machine/OS ABI (L-CONF/L-ENUM); tag iteration: entry n '
        'at _offset + n*_tagsize, DT_NULL yielded before the exit, count n+1 (W-ITER); string tags and attribute-name '
        'derivation evaluated over the set (E-iv); string-table selection and section/segment constructor wiring (W-WIRE); '
        'the two views share every accessor (override check, W-SAME); symbol access and count recovery (E-i); H-CUR.')
    ctx.assumptions += ['equality of the two views on concrete images is a runtime relation (not decided)']
    for r, d in (('L-CONF', 'Elf_Dyn layout equals glibc'), ('L-ENUM', 'tag table selection'), ('W-ITER', 'tag iteration structure'),
                 ('E-iv', 'string tag attribute names'), ('W-WIRE', 'string table / constructor wiring'),
                 ('W-SAME', 'section and segment views share the accessors'), ('E-i', 'symbol access formulas'),
                 ('H-CUR', 'cursor discipline'), ('G-LIT', 'enum literals defined'),
                 ('G-SIG', 'dynamic relocation tables located through their own tags'), ('G-TAB', 'address -> file offset mapping of table pointers')):
        ctx.rule(r, d)
    # the relocation tables the dynamic view hands out (pointer/size/entsize tags, mapped *file offset* of the pointer): the
    # rule is owned by C08 and shared here because get_relocation_tables is part of the dynamic view
    from props import C08
    ctx.guard('G-SIG', 'dynamic relocation tables', C08.check_dyn_tables, ctx, w)
    ctx.floor('G-SIG', 8)
    ctx.guard('G-TAB', 'table offsets', check_table_offset, ctx, w)
    ctx.floor('G-TAB', 3)
    # the segment view finds its string table by walking the sections: an image whose section header table was detached
    # (e_shoff == 0) must enumerate no sections, whatever stale count the header still carries (rule owned by C19, shared)
    from props import C19
    ctx.rule('I-STRIDE0', 'no section/program header table -> no entries')
    ctx.guard('I-STRIDE0', 'absent tables', C19.check_strides, ctx, w)
    ctx.guard('L-CONF', 'Elf_Dyn', elfconf.check_glibc_struct, ctx, w, 'Elf_Dyn')
    ctx.floor('L-CONF', 8)
    ctx.guard('L-ENUM', 'd_tag', check_tag_tables, ctx, w, ctx.tier == 'thorough')
    ctx.floor('L-ENUM', 8)
    ctx.guard('W-ITER', 'iteration', check_iter, ctx, w)
    ctx.floor('W-ITER', 8)
    ctx.guard('E-iv', 'string tags', check_string_tags, ctx, w)
    ctx.floor('E-iv', 6)
    ctx.guard('W-WIRE', 'wiring', check_wiring, ctx, w)
    ctx.floor('W-WIRE', 8)
    ctx.guard('W-SAME', 'overrides', check_same, ctx, w)
    ctx.floor('W-SAME', 8)
    ctx.guard('E-i', 'symbols', check_symbols, ctx, w)
    # symbol count recovery through the hash tables (formulas and walk conditions shared with C03)
    from props import C03
    ctx.guard('E-i', 'hash count recovery', C03.check_hash, ctx, w)
    ctx.floor('E-i', 30)
    ctx.guard('H-CUR', 'cursor', hrules.run_h, ctx, w, [DYN])
    ctx.guard('G-LIT', 'literals', literals.glit, ctx, w, [DYN])
    ctx.floor('G-LIT', 20)


def check_tag_tables(ctx, w, thorough):
    env = w.interp.module_env('elf/enums.py').vars
    common = env['ENUM_D_TAG_COMMON']
    extra = env['ENUMMAP_EXTRA_D_TAG_MACHINE']
    sol = env['ENUM_D_TAG_SOLARIS']
    # the configurations are taken from the tree: every machine that has an extra table, plus representatives without one
    machines = sorted(set(['EM_386', 'EM_X86_64', 'EM_ARM', 'EM_SPARC', 'EM_SPARCV9', 'EM_SPARC32PLUS']) | set(k for k in extra if isinstance(k, str)))
    if thorough:
        machines = sorted(k for k in env['ENUM_E_MACHINE'] if isinstance(k, str) and k.startswith('EM_'))
    for mach in machines:
        for osabi in ('ELFOSABI_SYSV', 'ELFOSABI_SOLARIS'):
            # gABI: DT_LOOS..DT_HIOS belongs to the OS ABI, DT_LOPROC..DT_HIPROC to the processor; the two ranges are disjoint, so a
            # Solaris file of a machine with processor tags has both sets (binutils get_dynamic_type decides each range separately)
            exp = dict(common)
            if mach in extra:
                exp.update(extra[mach])
            if osabi == 'ELFOSABI_SOLARIS':
                exp.update(sol)
            elfconf.check_enum_field(ctx, w, 'Elf_Dyn', 'd_tag', None, machine=mach, osabi=osabi, expected_table=exp,
                                     label='@%s,%s' % (mach, osabi))
    # d_ptr is an alias of d_val
    st = elfconf.structs_for(w, True, 64)
    ir = elfconf.irb(w).to_ir(layout.struct_attr(w, st, 'Elf_Dyn'))
    vals = dict((n, f) for n, f in layout.find_fields(ir) if f[0] == 'value')
    f = vals.get('d_ptr')
    got = expr.nfs(f[2][2].node.body, expr.FEnv(f[2][2].node)) if f else None
    ctx.ob('L-ENUM', 'elf/structs.py:ELFStructs._create_dyn', 'd_ptr = d_val', got == 'd_val', got=got)
    # machine extras keyed by machines that exist
    em = env['ENUM_E_MACHINE']
    for k in extra:
        ctx.ob('L-ENUM', 'elf/enums.py:ENUMMAP_EXTRA_D_TAG_MACHINE', k, k in em, msg='extra-tag table keyed by an undefined machine name')


def _offset_rows(f, env):
    """[(conditions, pointer element, offset element)] of the returning paths of get_table_offset after its tag loop, the
    elements as values at the end of the path (a local `offset` or the expression written straight into the return alike)"""
    body = f.node.body
    idx = [i for i, s in enumerate(body) if isinstance(s, ast.For)]
    if len(idx) != 1:
        raise AnalysisError('G-TAB', f.construct, 'tag loop not found at the top level')
    tail = ast.FunctionDef(name='tail', args=f.node.args, body=body[idx[0] + 1:], decorator_list=[], lineno=f.node.lineno, col_offset=0)
    rows = []
    for c, r, p in paths.returns_with_conds(tail):
        cs = expr.Facts(expr.CP(expr.cond_str(t, env), pol) for t, pol in c)
        if cs.contradiction:
            continue
        if not (isinstance(r, ast.Tuple) and len(r.elts) == 2):
            rows.append(None)
            continue
        rows.append((tuple(sorted(cs.items())), expr.path_value(p, r.elts[0], env), expr.path_value(p, r.elts[1], env)))
    return rows


def check_table_offset(ctx, w):
    """get_table_offset(tag) -> (pointer value, file offset): the offset is the pointer mapped through address_offsets;
    every consumer of a table position in this module takes element [1] (the file offset), never [0] (the address)."""
    f = w.model.func(DYN, 'Dynamic.get_table_offset')
    env = expr.FEnv(f.node, params=('tag_name',), inline=False)
    rows = _offset_rows(f, env)
    ctx.ob('G-TAB', f.construct, 'returns (pointer, file offset)', bool(rows) and all(r is not None and r[1] == 'ptr' for r in rows), got=rows)
    want = sorted([((('T(ptr)', True),), 'ptr', 'next(address_offsets(elffile,ptr),None)'), ((('T(ptr)', False),), 'ptr', 'None')])
    ctx.ob('G-TAB', f.construct, 'file offset = first address_offsets(pointer) mapping', sorted(r for r in rows if r is not None) == want, got=rows, expected=want)
    n = 0
    for g in w.model.library_funcs():
        if not g.mod.endswith('elf/dynamic.py'):
            continue
        for c in ast.walk(g.node):
            if isinstance(c, ast.Subscript) and isinstance(c.value, ast.Call) and (dispatch.callee_name(c.value) or '').endswith('get_table_offset'):
                n += 1
                idx = c.slice.value if isinstance(c.slice, ast.Constant) else None
                ctx.ob('G-TAB', g.construct, 'table position %s uses the file offset [1]' % U(c.value)[:50], idx == 1, got=idx, line=c.lineno,
                       msg='a table pointer tag holds a virtual address: reading the table at it (element [0]) instead of at the mapped file '
                           'offset (element [1]) fails whenever the segment is not loaded at its file offset')
            elif isinstance(c, ast.Assign) and isinstance(c.value, ast.Call) and (dispatch.callee_name(c.value) or '').endswith('get_table_offset'):
                n += 1
                t = c.targets[0]
                ok = isinstance(t, ast.Tuple) and len(t.elts) == 2
                ctx.ob('G-TAB', g.construct, 'table position unpacked as (pointer, offset)', ok, line=c.lineno)
    ctx.ob('G-TAB', 'elf/dynamic.py', 'consumers of get_table_offset found', n >= 5, got=n)


def check_iter(ctx, w):
    f = w.model.func(DYN, 'Dynamic._get_tag')
    env = expr.FEnv(f.node, params=('n',))
    ops = [o.t() for o in streams.func_ops(f.node, env) if o.kind == 'parse']
    want = ('parse', '_stream', 'Elf_Dyn', expr.spec_nf('_offset + n * _tagsize'))
    ctx.ob('W-ITER', f.construct, 'entry n at _offset + n*_tagsize', ops == [want], got=ops, expected=want)
    f = w.model.func(DYN, 'Dynamic.__init__')
    env = expr.FEnv(f.node, params=('stream', 'elffile', 'stringtable', 'position', 'empty'), inline=False)
    tr = expr.assign_trace(f.node, env)
    want = {'self._stream': [('=', 'stream')], 'self._offset': [('=', 'position')], 'self._tagsize': [('=', 'sizeof(Elf_Dyn)')],
            'self._stringtable': [('=', 'stringtable')], 'self._empty': [('=', 'empty')], 'self.elfstructs': [('=', 'structs')]}
    for k, v in sorted(want.items()):
        ctx.ob('W-ITER', f.construct, k, tr.get(k) == v, got=tr.get(k), expected=v)
    # _iter_tags: for n in count(): tag = _get_tag(n); [yield if match]; break on DT_NULL -- the yield precedes the break
    f = w.model.func(DYN, 'Dynamic._iter_tags')
    env = expr.FEnv(f.node, params=('type',))
    loops = [n for n in ast.walk(f.node) if isinstance(n, ast.For)]
    ok = False
    why = ''
    if len(loops) == 1 and U(loops[0].iter) == 'itertools.count()':
        body = loops[0].body
        nvar = loops[0].target.id
        kinds = []
        for st in body:
            if isinstance(st, ast.Assign) and expr.nfs(st.value, env) == '_get_tag(self,%s)' % nvar:
                kinds.append('get')
            elif isinstance(st, ast.If) and any(isinstance(x, ast.Yield) for x in ast.walk(st)):
                c = expr.cond_str(st.test, env)
                kinds.append('yield' if c == expr.spec_cond("type is None or d_tag == type") else 'yield?' + c)
            elif isinstance(st, ast.If) and any(isinstance(x, ast.Break) for x in st.body):
                c = expr.cond_str(st.test, env)
                kinds.append('break' if c == expr.spec_cond("d_tag == 'DT_NULL'") else 'break?' + c)
            else:
                kinds.append('other:' + U(st)[:30])
        ok = kinds == ['get', 'yield', 'break']
        why = str(kinds)
    ctx.ob('W-ITER', f.construct, 'get, yield-if-match, break-on-DT_NULL in this order', ok, got=why,
           msg='the terminator must be yielded before the loop exits, and nothing after it')
    exits = [n for n in ast.walk(f.node) if isinstance(n, (ast.Return, ast.Break))]
    ctx.ob('W-ITER', f.construct, 'only exits: empty table, DT_NULL', len(exits) == 2, got=len(exits))
    f = w.model.func(DYN, 'Dynamic.num_tags')
    env = expr.FEnv(f.node)
    tr = expr.assign_trace(f.node, env)
    ctx.ob('W-ITER', f.construct, 'count = n + 1 at DT_NULL', tr.get('self._num_tags') == [('=', expr.spec_nf('n + 1'))], got=tr.get('self._num_tags'))
    tests = [expr.cond_str(n.test, env) for n in ast.walk(f.node) if isinstance(n, ast.If)]
    ctx.ob('W-ITER', f.construct, 'terminator test', expr.spec_cond("d_tag == 'DT_NULL'").replace('d_tag', 'd_tag') in tests, got=tests)
    f = w.model.func(DYN, 'Dynamic.iter_tags')
    env = expr.FEnv(f.node, params=('type',))
    ys = [expr.nfs(y.value, env) for y in ast.walk(f.node) if isinstance(y, ast.Yield)]
    loops = [n for n in ast.walk(f.node) if isinstance(n, ast.For)]
    ok = len(loops) == 1 and expr.nfs(loops[0].iter, env) == '_iter_tags(self,type)' and \
        ys == ['DynamicTag(%s,_get_stringtable(self))' % loops[0].target.id]
    ctx.ob('W-ITER', f.construct, 'wraps every raw tag with the selected string table', ok, got=ys)
    f = w.model.func(DYN, 'Dynamic.get_table_offset')
    env = expr.FEnv(f.node, params=('tag_name',), inline=False)
    tr = expr.assign_trace(f.node, env)
    ok = tr.get('ptr') == [('=', 'None'), ('=', 'd_ptr')] and sorted(set(r[2] for r in _offset_rows(f, env) if r)) == ['None', 'next(address_offsets(elffile,ptr),None)']
    ctx.ob('W-ITER', f.construct, 'first tag of the type, first mapped offset', ok, got=(tr.get('ptr'), _offset_rows(f, env)))
    loops = [n for n in ast.walk(f.node) if isinstance(n, ast.For)]
    ok = len(loops) == 1 and expr.nfs(loops[0].iter, env) == '_iter_tags(self,tag_name)' and isinstance(loops[0].body[-1], ast.Break)
    ctx.ob('W-ITER', f.construct, 'takes the first matching tag', ok)


def check_string_tags(ctx, w):
    cv = w.interp.class_value(w.model.cls('DynamicTag'))
    handled = cv.attrs.get('_HANDLED_TAGS')
    if not isinstance(handled, (set, frozenset, list, tuple)):
        raise AnalysisError('E-iv', DYN + ':DynamicTag._HANDLED_TAGS', 'not evaluable: %r' % (handled,))
    tags = w.table('elf/enums.py', 'ENUM_D_TAG')
    for t, attr in sorted(STRING_TAGS.items()):
        ctx.ob('E-iv', DYN + ':DynamicTag._HANDLED_TAGS', t, t in handled, msg='string-valued tag is not resolved through the string table')
    for t in sorted(handled):
        ctx.ob('E-iv', DYN + ':DynamicTag._HANDLED_TAGS', t + ' is a tag name', t in tags, msg='handled tag is not a defined dynamic tag')
    f = w.model.func(DYN, 'DynamicTag.__init__')
    env = expr.FEnv(f.node, params=('entry', 'stringtable'), inline=False)
    calls = [c for c in ast.walk(f.node) if isinstance(c, ast.Call) and isinstance(c.func, ast.Name) and c.func.id == 'setattr']
    ok = len(calls) == 1 and expr.nfs(calls[0].args[1], env) == "lower(slice(d_tag,3,,))" and \
        expr.nfs(calls[0].args[2], env) == 'get_string(stringtable,d_val)'
    ctx.ob('E-iv', f.construct, 'attribute name = d_tag[3:].lower(), value = string at d_val', ok,
           got=[expr.nfs(a, env) for a in calls[0].args] if calls else None)
    for t, attr in sorted(STRING_TAGS.items()):
        ctx.ob('E-iv', f.construct, '%s -> .%s' % (t, attr), t[3:].lower() == attr)
    tests = [expr.cond_str(n.test, env) for n in ast.walk(f.node) if isinstance(n, ast.If)]
    ctx.ob('E-iv', f.construct, 'membership test on d_tag', '[in:d_tag in _HANDLED_TAGS]' in tests, got=tests)


def check_wiring(ctx, w):
    f = w.model.func(DYN, 'DynamicSection.__init__')
    env = expr.FEnv(f.node, params=('header', 'name', 'elffile'))
    calls = [c for c in ast.walk(f.node) if isinstance(c, ast.Call) and U(c.func) == 'Dynamic.__init__']
    got = [expr.nfs(a, env) for a in calls[0].args] if calls else None
    want = ['self', 'stream', 'elffile', "get_section(elffile,sh_link,tuple('SHT_STRTAB','SHT_NOBITS'))", 'sh_offset',
            expr.spec_cond("sh_type == 'SHT_NOBITS'")]
    ctx.ob('W-WIRE', f.construct, 'Dynamic(stream, elffile, section sh_link [STRTAB], sh_offset, NOBITS)', got == want, got=got, expected=want,
           msg='section view: string table must be the type-checked sh_link section and the table starts at sh_offset')
    f = w.model.func(DYN, 'DynamicSegment.__init__')
    env = expr.FEnv(f.node, params=('header', 'stream', 'elffile'), inline=False)
    calls = [c for c in ast.walk(f.node) if isinstance(c, ast.Call) and U(c.func) == 'Dynamic.__init__']
    got = [expr.nfs(a, env) for a in calls[0].args] if calls else None
    want = ['self', 'stream', 'elffile', 'stringtable', 'p_offset', expr.spec_cond('p_filesz == 0')]
    ctx.ob('W-WIRE', f.construct, 'Dynamic(stream, elffile, stringtable, p_offset, p_filesz == 0)', got == want, got=got, expected=want)
    tr = expr.assign_trace(f.node, env)
    ctx.ob('W-WIRE', f.construct, 'string table from the .dynamic section at the same offset',
           tr.get('stringtable') == [('=', 'None'), ('=', 'get_section(elffile,sh_link)')], got=tr.get('stringtable'))
    tests = [expr.cond_str(n.test, env) for n in ast.walk(f.node) if isinstance(n, ast.If)]
    want_t = expr.spec_cond('isinstance(section, DynamicSection) and sh_offset == p_offset')
    ctx.ob('W-WIRE', f.construct, 'section matched by type and offset', want_t in tests, got=tests, expected=want_t)
    ctx.ob('W-WIRE', f.construct, '_symbol_size = sizeof(Elf_Sym)', tr.get('self._symbol_size') == [('=', 'sizeof(Elf_Sym)')], got=tr.get('self._symbol_size'))
    # _get_stringtable: cached -> DT_STRTAB via address_offsets -> .dynstr
    f = w.model.func(DYN, 'Dynamic._get_stringtable')
    env = expr.FEnv(f.node, inline=False)
    rp = paths.returns_with_conds(f.node)
    seq = []
    for conds, ret, p in rp:
        seq.append(([expr.CP(expr.cond_str(t, env), pol) for t, pol in conds], expr.nfs(ret, env)))
    want = [([('T(_stringtable)', True)], '_stringtable'),
            ([('T(_stringtable)', False), expr.CP(expr.spec_cond('table_offset is not None'), True)], '_stringtable'),
            ([('T(_stringtable)', False), expr.CP(expr.spec_cond('table_offset is not None'), False)], '_stringtable')]
    ctx.ob('W-WIRE', f.construct, 'selection order: given table, DT_STRTAB, .dynstr', expr.rows(seq) == expr.rows(want), got=seq, expected=want)
    tr = expr.assign_trace(f.node, env)
    ctx.ob('W-WIRE', f.construct, 'DT_STRTAB table / .dynstr fallback',
           tr.get('self._stringtable') == [('=', '_DynamicStringTable(_stream,table_offset)'), ('=', "get_section_by_name(elffile,'.dynstr')")],
           got=tr.get('self._stringtable'))
    src = U(f.node)
    ctx.ob('W-WIRE', f.construct, "table offset from get_table_offset('DT_STRTAB')",
           tr.get('table_offset') == [('=', "index(get_table_offset(self,'DT_STRTAB'),1)")], got=tr.get('table_offset'))
    f = w.model.func(DYN, '_DynamicStringTable.get_string')
    env = expr.FEnv(f.node, params=('offset',))
    ops = [o.t() for o in streams.func_ops(f.node, env)]
    ctx.ob('W-WIRE', f.construct, 'C string at table offset + offset', ops == [('cstr', '_stream', expr.spec_nf('_table_offset + offset'))], got=ops)


def check_same(ctx, w):
    for cn in ('DynamicSection', 'DynamicSegment'):
        ci = w.model.cls(cn)
        ctx.ob('W-SAME', DYN + ':' + cn, 'inherits Dynamic', ci.is_subclass_of('Dynamic'))
        for m in SHARED:
            own = m in ci.methods
            # a Section/Segment base must not shadow it either (MRO: Section/Segment come first)
            impl = ci.find_method(m)
            ctx.ob('W-SAME', DYN + ':' + cn, 'uses Dynamic.' + m, (not own) and impl is not None and impl.cls.name == 'Dynamic',
                   msg='the two views no longer share this accessor', got=impl.construct if impl else None)


def check_symbols(ctx, w):
    f = w.model.func(DYN, 'DynamicSegment.get_symbol')
    env = expr.FEnv(f.node, params=('index',), inline=False)
    ops = [o.t() for o in streams.func_ops(f.node, env) if o.kind == 'parse']
    want = ('parse', '_stream', 'Elf_Sym', expr.spec_nf('tab_offset + index * _symbol_size'))
    ctx.ob('E-i', f.construct, 'symbol at file offset of DT_SYMTAB + index*sizeof(Elf_Sym)', ops == [want], got=ops, expected=want,
           msg='dynamic symbol must be read at the *file offset* (not the address) of DT_SYMTAB + index * entry size')
    ctx.ob('E-i', f.construct, 'offset from DT_SYMTAB', "tab_ptr, tab_offset = self.get_table_offset('DT_SYMTAB')" in U(f.node))
    tr = expr.assign_trace(f.node, env)
    ctx.ob('E-i', f.construct, 'name through the selected string table at st_name',
           tr.get('symbol_name') == [('=', 'get_string(string_table,st_name)')] and tr.get('string_table') == [('=', '_get_stringtable(self)')],
           got=(tr.get('symbol_name'), tr.get('string_table')))
    f = w.model.func(DYN, 'DynamicSegment.num_symbols')
    env = expr.FEnv(f.node, inline=False)
    src = U(f.node)
    order = [src.find("self.get_table_offset('DT_GNU_HASH')"), src.find("self.get_table_offset('DT_HASH')"), src.find("self.get_table_offset('DT_SYMTAB')")]
    ctx.ob('E-i', f.construct, 'recovery order GNU hash, SysV hash, nearest pointer', all(o >= 0 for o in order) and order == sorted(order), got=order)
    tr = expr.assign_trace(f.node, env)
    ns = tr.get('self._num_symbols')
    want = [('=', 'get_number_of_symbols(hash_section)'), ('=', 'get_number_of_symbols(hash_section)'),
            ('=', expr.spec_nf('(nearest_ptr - tab_ptr) // _symbol_size'))]
    ctx.ob('E-i', f.construct, 'count assignments', ns == want, got=ns, expected=want)
    hs = tr.get('hash_section')
    ctx.ob('E-i', f.construct, 'hash tables built over this segment at the mapped offsets',
           hs == [('=', 'GNUHashTable(elffile,gnu_hash_offset,self)'), ('=', 'ELFHashTable(elffile,hash_offset,self)')], got=hs)
    tests = [expr.cond_str(n.test, env) for n in ast.walk(f.node) if isinstance(n, ast.If)]
    atoms = set(a for n in ast.walk(f.node) if isinstance(n, ast.If) for a in expr.cond_atoms(n.test, env))
    bad_size = [p for p in paths.func_paths(f.node) if p.end[0] == 'raise' and
                expr.Facts(expr.CP(expr.cond_str(t, env), pol) for t, pol in p.conds()).get(expr.spec_cond('_symbol_size != d_val')) is True and
                expr.Facts(expr.CP(expr.cond_str(t, env), pol) for t, pol in p.conds()).get(expr.spec_cond("d_tag == 'DT_SYMENT'")) is True]
    ctx.ob('E-i', f.construct, 'DT_SYMENT cross-check', len(bad_size) >= 1 and all('ELFError' in U(p.end[1]) for p in bad_size), got=sorted(atoms)[:8])
    want_t = expr.spec_cond('tag_ptr > tab_ptr and (nearest_ptr is None or nearest_ptr > tag_ptr)')
    ctx.ob('E-i', f.construct, 'nearest higher pointer', want_t in tests, got=tests, expected=want_t)
    f = w.model.func(DYN, 'DynamicSegment.iter_symbols')
    env = expr.FEnv(f.node)
    loops = [n for n in ast.walk(f.node) if isinstance(n, ast.For)]
    ys = [expr.nfs(y.value, env) for y in ast.walk(f.node) if isinstance(y, ast.Yield)]
    ok = len(loops) == 1 and expr.nfs(loops[0].iter, env) == 'range(num_symbols(self))' and ys == ['get_symbol(self,%s)' % loops[0].target.id]
    ctx.ob('E-i', f.construct, 'iterates every recovered index', ok)


MUTANTS = [
    ('dyn-tag-unsigned', 'elf/structs.py', "Enum(self.Elf_sxword('d_tag'), **d_tag_dict)", "Enum(self.Elf_xword('d_tag'), **d_tag_dict)", 'L-CONF'),
    ('dyn-solaris-elif', 'elf/structs.py', "        if self.e_ident_osabi == 'ELFOSABI_SOLARIS':\n            d_tag_dict.update(ENUM_D_TAG_SOLARIS)",
     "        elif self.e_ident_osabi == 'ELFOSABI_SOLARIS':\n            d_tag_dict.update(ENUM_D_TAG_SOLARIS)", 'L-ENUM'),
    ('dyn-solaris-always', 'elf/structs.py', "if self.e_ident_osabi == 'ELFOSABI_SOLARIS':\n            d_tag_dict.update(ENUM_D_TAG_SOLARIS)",
     "if True:\n            d_tag_dict.update(ENUM_D_TAG_SOLARIS)", 'L-ENUM'),
    ('dyn-no-machine', 'elf/structs.py', "if self.e_machine in ENUMMAP_EXTRA_D_TAG_MACHINE:", "if False:", 'L-ENUM'),
    ('break-first', DYN, """            if type is None or tag['d_tag'] == type:
                yield tag
            if tag['d_tag'] == 'DT_NULL':
                break""", """            if tag['d_tag'] == 'DT_NULL':
                break
            if type is None or tag['d_tag'] == type:
                yield tag""", 'W-ITER'),
    ('n-plus-1', DYN, "self._num_tags = n + 1", "self._num_tags = n", 'W-ITER'),
    ('tag-offset', DYN, "offset = self._offset + n * self._tagsize", "offset = n * self._tagsize", 'W-ITER'),
    ('handled-soname', DYN, "['DT_NEEDED', 'DT_RPATH', 'DT_RUNPATH', 'DT_SONAME',", "['DT_NEEDED', 'DT_RPATH', 'DT_RUNPATH',", 'E-iv'),
    ('attr-slice', DYN, "setattr(self, entry.d_tag[3:].lower(),", "setattr(self, entry.d_tag[2:].lower(),", 'E-iv'),
    ('string-ptr', DYN, "stringtable.get_string(self.entry.d_val))", "stringtable.get_string(self.entry.d_tag))", 'E-iv'),
    ('sec-link-info', DYN, "stringtable = elffile.get_section(header['sh_link'], ('SHT_STRTAB', 'SHT_NOBITS'))", "stringtable = elffile.get_section(header['sh_info'], ('SHT_STRTAB', 'SHT_NOBITS'))", 'W-WIRE'),
    ('seg-offset', DYN, "Dynamic.__init__(self, stream, elffile, stringtable, self['p_offset'],", "Dynamic.__init__(self, stream, elffile, stringtable, self['p_vaddr'],", 'W-WIRE'),
    ('seg-match', DYN, "section['sh_offset'] == header['p_offset']):", "section['sh_addr'] == header['p_offset']):", 'W-WIRE'),
    ('sym-ptr', DYN, "stream_pos=tab_offset + index * self._symbol_size)", "stream_pos=tab_ptr + index * self._symbol_size)", 'E-i'),
    ('count-formula', DYN, "self._num_symbols = (end_ptr - tab_ptr) // self._symbol_size", "self._num_symbols = (end_ptr - tab_ptr) // self._tagsize", 'E-i'),
    ('strtab-tag', DYN, "_, table_offset = self.get_table_offset('DT_STRTAB')", "_, table_offset = self.get_table_offset('DT_SYMTAB')", 'W-WIRE'),
    ('first-tag', DYN, """            ptr = tag['d_ptr']
            break""", """            ptr = tag['d_ptr']""", 'W-ITER'),
    ('override', DYN, "    def num_symbols(self):\n        \"\"\" Number of symbols in the table recovered from DT_SYMTAB", "    def num_tags(self):\n        return 0\n\n    def num_symbols(self):\n        \"\"\" Number of symbols in the table recovered from DT_SYMTAB", 'W-SAME'),
    ('dynstr-offset', DYN, "s = parse_cstring_from_stream(self._stream, self._table_offset + offset)", "s = parse_cstring_from_stream(self._stream, offset)", 'W-WIRE'),
]
