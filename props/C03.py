"""C03 -- symbol tables enumerate exactly; name and hash lookups are complete and sound.

Decides (DESIGN.md §3 C03): Elf_Sym / syminfo / hash-table layouts; st_info/st_other bit fields vs the registry
macros; entry addressing strides and counts; name via the linked string table; name-map construction; hash-table
position formulas, bucket selection, chain-walk conditions; cursor discipline of the walks (H-CUR).
"""
import ast
import re
from sa.canon import U
from sa.world import get_world
from sa import elfconf, layout, expr, paths, streams, dispatch, literals, registry, hrules
from sa.report import AnalysisError
from spec import elf as S

SEC = 'elf/sections.py'
HASH = 'elf/hash.py'


def run(ctx):
    w = get_world(ctx)
    ctx.explanation.append(
        'C03: symbol/hash structure layouts vs glibc typedefs and gABI rows (L-CONF); bit-field placement vs the '
        'ELF32_ST_BIND/TYPE/VISIBILITY macros (L-BITS); accessor formulas offset + n*entsize, counts size//entsize '
        '(I-STRIDE); name-map built from the enumeration (W-MAP); hash chain-start formula, bucket selection and walk '
        'conditions in normal form (E-i); stream-cursor typestate of both hash walks and the accessors (H-CUR).')
    ctx.assumptions += ['hash *values* (elf_hash/gnu_hash loops over bytes) are runtime quantities pinned by the suite',
                        'distinct stream descriptors hold distinct streams; all ELF objects share the file stream']
    for r, d in (('L-CONF', 'layout equals registry typedef / gABI row'), ('L-BITS', 'bit fields sit where the registry macros read them'),
                 ('L-ENUM', 'enum tables and pass-through'), ('I-STRIDE', 'entry n at table offset + n*entry size; count = size // entry size'),
                 ('W-MAP', 'name map holds every index per name, built from the enumeration'),
                 ('E-i', 'hash-table formulas and walk conditions'), ('H-CUR', 'no relative stream use at an unknown position'),
                 ('G-LIT', 'enum literals defined')):
        ctx.rule(r, d)
    ctx.guard('L-CONF', 'Elf_Sym', elfconf.check_glibc_struct, ctx, w, 'Elf_Sym')
    ctx.guard('L-CONF', 'Elf_Sunw_Syminfo', elfconf.check_glibc_struct, ctx, w, 'Elf_Sunw_Syminfo')
    ctx.guard('L-CONF', 'Elf_Hash', elfconf.check_hand_struct, ctx, w, 'Elf_Hash')
    ctx.guard('L-CONF', 'Gnu_Hash', elfconf.check_hand_struct, ctx, w, 'Gnu_Hash')
    ctx.floor('L-CONF', 60)
    ctx.guard('L-BITS', 'st_info', check_bits, ctx, w)
    ctx.floor('L-BITS', 5)
    ctx.guard('L-ENUM', 'st_shndx', elfconf.check_enum_field, ctx, w, 'Elf_Sym', 'st_shndx', 'ENUM_ST_SHNDX')
    ctx.guard('L-ENUM', 'si_boundto', elfconf.check_enum_field, ctx, w, 'Elf_Sunw_Syminfo', 'si_boundto', 'ENUM_SUNW_SYMINFO_BOUNDTO')
    ctx.guard('I-STRIDE', 'accessors', check_strides, ctx, w)
    ctx.floor('I-STRIDE', 9)
    ctx.guard('W-MAP', 'symbol name map', check_name_map, ctx, w)
    ctx.floor('W-MAP', 4)
    ctx.guard('E-i', 'hash tables', check_hash, ctx, w)
    ctx.floor('E-i', 14)
    ctx.guard('H-CUR', 'cursor', hrules.run_h, ctx, w, [HASH, SEC, 'elf/dynamic.py'],
              only={SEC: ('Section.', 'StringTableSection.', 'SymbolTable', 'SUNWSyminfo', 'Symbol'),
                    'elf/dynamic.py': ('DynamicSegment.get_symbol', 'DynamicSegment.iter_symbols', 'DynamicSegment.num_symbols', '_DynamicStringTable')})
    ctx.floor('H-CUR', 10)
    ctx.guard('G-LIT', 'literals', literals.glit, ctx, w, [HASH])


def check_bits(ctx, w):
    """BitStruct members are MSB first: member i occupies [8 - sum(width[:i+1]), 8 - sum(width[:i])) of the byte."""
    st = elfconf.structs_for(w, True, 64)
    ir = elfconf.irb(w).to_ir(layout.struct_attr(w, st, 'Elf_Sym'))
    g = registry.glibc()
    found = {}
    for n, f in layout.find_fields(ir):
        if f[0] == 'bitstruct':
            pos = 0
            for m in f[2]:
                mm = m[1] if m[0] == 'enum' else m
                if mm[0] == 'bits':
                    width = mm[2]
                    name = mm[1]
                    found[(f[1], name)] = (8 - pos - width, width, mm[3], mm[4], m[2] if m[0] == 'enum' else None, m[3] if m[0] == 'enum' else None)
                    pos += width
                elif mm[0] == 'pad':
                    pos += mm[1]
    # registry macros: ELF32_ST_BIND(val) (((unsigned char)(val)) >> 4); ELF32_ST_TYPE(val) ((val) & 0xf);
    # ELF32_ST_VISIBILITY(o) ((o) & 0x03)
    def macro(name):
        if name not in g.fmacros:
            raise AnalysisError('L-BITS', name, 'registry macro not found')
        return g.fmacros[name][1].replace(' ', '')
    mb = macro('ELF32_ST_BIND')
    mt = macro('ELF32_ST_TYPE')
    mv = macro('ELF32_ST_VISIBILITY')
    m = re.search(r'>>(\d+)', mb)
    bind_shift = int(m.group(1)) if m else None
    m = re.search(r'&(0x[0-9a-fA-F]+|\d+)', mt)
    type_mask = int(m.group(1), 0) if m else None
    m = re.search(r'&(0x[0-9a-fA-F]+|\d+)', mv)
    vis_mask = int(m.group(1), 0) if m else None
    b = found.get(('st_info', 'bind'))
    t = found.get(('st_info', 'type'))
    v = found.get(('st_other', 'visibility'))
    l = found.get(('st_other', 'local'))
    ctx.ob('L-BITS', 'elf/structs.py:ELFStructs._create_sym', 'st_info.bind', b is not None and b[0] == bind_shift and b[0] + b[1] == 8
           and not b[2] and not b[3], msg='binding is not the high bits ELF32_ST_BIND reads', got=b, expected='shift %s to bit 7' % bind_shift,
           sample='st_info.bind = bits 7..%s (ELF32_ST_BIND: %s)' % (bind_shift, mb))
    ctx.ob('L-BITS', 'elf/structs.py:ELFStructs._create_sym', 'st_info.type', t is not None and t[0] == 0 and (1 << t[1]) - 1 == type_mask
           and not t[2] and not t[3], msg='type is not the low bits ELF32_ST_TYPE reads', got=t, expected='mask %#x' % (type_mask or 0),
           sample='st_info.type = mask %#x (ELF32_ST_TYPE: %s)' % (type_mask or 0, mt))
    # visibility: low 2 bits per gABI; the library keeps 3 (Solaris STV_EXPORTED.. use the third bit): accept 2 or 3
    ok = v is not None and v[0] == 0 and ((1 << v[1]) - 1) & vis_mask == vis_mask and v[1] in (2, 3) and not v[2] and not v[3]
    ctx.ob('L-BITS', 'elf/structs.py:ELFStructs._create_sym', 'st_other.visibility', ok,
           msg='visibility is not the least-significant bits ELF32_ST_VISIBILITY reads', got=v, expected='low 2 (gABI) or 3 (Solaris) bits')
    ctx.ob('L-BITS', 'elf/structs.py:ELFStructs._create_sym', 'st_other.local', l is not None and l[0] == 5 and l[1] == 3,
           msg='PPC64 local-entry bits are not bits 7-5 (ELFv2 §3.4.1)', got=l, expected=(5, 3))
    for key, tn in ((('st_info', 'bind'), 'ENUM_ST_INFO_BIND'), (('st_info', 'type'), 'ENUM_ST_INFO_TYPE'),
                    (('st_other', 'visibility'), 'ENUM_ST_VISIBILITY')):
        f = found.get(key)
        exp = dict((k, x) for k, x in w.table('elf/enums.py', tn).items() if isinstance(k, str) and k != '_default_')
        ok = f is not None and f[4] == exp
        ctx.ob('L-BITS', 'elf/structs.py:ELFStructs._create_sym', '%s.%s table' % key, ok, msg='bit field does not use its enum table',
               expected=tn)
        # the field is wide enough for every value its own table names (STV_EXPORTED..STV_ELIMINATE need the third bit)
        mx = max([x for x in exp.values() if isinstance(x, int)] or [0])
        ctx.ob('L-BITS', 'elf/structs.py:ELFStructs._create_sym', '%s.%s wide enough for its table (max %d)' % (key[0], key[1], mx),
               f is not None and (1 << f[1]) > mx, got=f[:2] if f else None,
               msg='the bit field is narrower than the largest value of its enum table: those symbols decode under another name')
        ctx.ob('L-BITS', 'elf/structs.py:ELFStructs._create_sym', '%s.%s pass-through' % key,
               f is not None and type(f[5]).__name__ == 'Ctor' and f[5].kind == 'Pass', msg='bit-field enum lacks the pass-through default')


def _ret(ctx, w, mod, q, params, want, rule='I-STRIDE', what='return value'):
    f = w.model.func(mod, q)
    env = expr.FEnv(f.node, params=params)
    got = [expr.nfs(r.value, env) for r in expr.returns_of(f.node)]
    want_n = expr.spec_nf(want)
    ctx.ob(rule, f.construct, what, got == [want_n], msg='formula differs from the specification', got=got, expected=want_n,
           line=f.node.lineno, sample='%s = %s' % (q, want_n))
    return f, env


def _parse_at(ctx, w, mod, q, params, struct, stream, pos, rule='I-STRIDE'):
    f = w.model.func(mod, q)
    env = expr.FEnv(f.node, params=params)
    ops = [o.t() for o in streams.func_ops(f.node, env) if o.kind == 'parse']
    want = ('parse', stream, expr.spec_nf(struct) if '(' in struct else struct, expr.spec_nf(pos))
    ctx.ob(rule, f.construct, 'entry parsed at ' + pos, bool(ops) and ops[0] == want, msg='entry is not parsed with the right struct at '
           'table offset + n * entry size', got=ops[:1], expected=want, line=f.node.lineno, sample='%s: %s' % (q, want,))
    return f, env


def check_strides(ctx, w):
    _ret(ctx, w, SEC, 'SymbolTableSection.num_symbols', (), 'sh_size // sh_entsize')
    f, env = _parse_at(ctx, w, SEC, 'SymbolTableSection.get_symbol', ('n',), 'Elf_Sym', 'stream', 'sh_offset + n * sh_entsize')
    got = [expr.nfs(r.value, env) for r in expr.returns_of(f.node)]
    want = 'Symbol(struct_parse(Elf_Sym,stream,%s),get_string(stringtable,st_name))' % expr.spec_nf('sh_offset + n*sh_entsize')
    ctx.ob('I-STRIDE', f.construct, 'name from linked string table at st_name', got == [want],
           msg='symbol name is not read from the linked string table at st_name', got=got, expected=want)
    _ret(ctx, w, SEC, 'SUNWSyminfoTableSection.num_symbols', (), 'sh_size // sh_entsize - 1')
    f, env = _parse_at(ctx, w, SEC, 'SUNWSyminfoTableSection.get_symbol', ('n',), 'Elf_Sunw_Syminfo', 'stream', 'sh_offset + n * sh_entsize')
    got = [expr.nfs(r.value, env) for r in expr.returns_of(f.node)]
    want = 'Symbol(struct_parse(Elf_Sunw_Syminfo,stream,%s),name(get_symbol(symboltable,n)))' % expr.spec_nf('sh_offset + n*sh_entsize')
    ctx.ob('I-STRIDE', f.construct, 'name from the linked symbol table at the same index', got == [want], got=got, expected=want,
           msg='syminfo entry name is not that of symbol n of the linked symbol table')
    f, env = _parse_at(ctx, w, SEC, 'SymbolTableIndexSection.get_section_index', ('n',), "Elf_word('')", 'stream', 'sh_offset + n * sh_entsize')
    # iteration ranges
    for q, want_iter in (('SymbolTableSection.iter_symbols', 'range(num_symbols(self))'),
                         ('SUNWSyminfoTableSection.iter_symbols', 'range(1,%s)' % expr.spec_nf('num_symbols(self) + 1'))):
        f = w.model.func(SEC, q)
        env = expr.FEnv(f.node)
        loops = [n for n in ast.walk(f.node) if isinstance(n, ast.For)]
        ok = len(loops) == 1 and expr.nfs(loops[0].iter, env) == want_iter
        ys = [n for n in ast.walk(f.node) if isinstance(n, ast.Yield)]
        ok = ok and len(ys) == 1 and isinstance(loops[0].target, ast.Name) and \
            expr.nfs(ys[0].value, env) == 'get_symbol(self,%s)' % loops[0].target.id
        ctx.ob('I-STRIDE', f.construct, 'iterates ' + want_iter, ok, msg='enumeration does not visit every entry index in order',
               got=expr.nfs(loops[0].iter, env) if loops else None, expected=want_iter)
    # entry-size sanity in the constructor
    f = w.model.func(SEC, 'SymbolTableSection.__init__')
    env = expr.FEnv(f.node)
    conds = []
    for n in ast.walk(f.node):
        if isinstance(n, ast.Call) and isinstance(n.func, ast.Name) and n.func.id == 'elf_assert' and n.args:
            conds.append(expr.cond_str(n.args[0], env))
    ctx.ob('I-STRIDE', f.construct, 'entsize > 0 and size % entsize == 0 asserted',
           expr.spec_cond('sh_entsize > 0') in conds and expr.spec_cond('sh_size % sh_entsize == 0') in conds, got=conds,
           msg='symbol-table constructor no longer validates the entry size')


def check_name_map(ctx, w):
    for mod, q in ((SEC, 'SymbolTableSection.get_symbol_by_name'), ('elf/dynamic.py', 'DynamicSegment.get_symbol_by_name')):
        f = w.model.func(mod, q)
        env = expr.FEnv(f.node, params=('name',))
        loops = [n for n in ast.walk(f.node) if isinstance(n, ast.For)]
        ok = False
        why = 'no loop over enumerate(self.iter_symbols())'
        for lp in loops:
            if U(lp.iter) == 'enumerate(self.iter_symbols())' and isinstance(lp.target, ast.Tuple):
                i, s = [e.id for e in lp.target.elts]
                body = [U(st) for st in lp.body]
                ok = body == ['self._symbol_name_map[%s.name].append(%s)' % (s, i)]
                why = 'body %r' % body
        ctx.ob('W-MAP', f.construct, 'map[name].append(enumeration index)', ok, msg='symbol-name map not built from the enumeration: ' + why)
        # decision rows over the truth of the stored index list (one conditional expression or an early return alike)
        key = 'T(get(_symbol_name_map,name))'
        rets = sorted(set((dict(c).get(key), v) for c, v in expr.rows(expr.return_rows(f.node, env))), key=repr)
        ok = rets == sorted([(False, 'None'), (True, 'comp(get_symbol(self,i),for(i,get(_symbol_name_map,name)))')], key=repr)
        ctx.ob('W-MAP', f.construct, 'returns every symbol of the name, re-read by index', ok, got=rets,
               msg='lookup does not return all symbols stored under the name')
        # guard: map built iff None
        tests = [expr.cond_str(n.test, env) for n in ast.walk(f.node) if isinstance(n, ast.If)]
        ctx.ob('W-MAP', f.construct, 'lazy guard', expr.spec_cond('_symbol_name_map is None') in tests, got=tests)


def check_hash(ctx, w):
    # constructors: header parsed at start_offset with the right struct
    for q, struct in (('ELFHashTable.__init__', 'Elf_Hash'), ('GNUHashTable.__init__', 'Gnu_Hash')):
        f = w.model.func(HASH, q)
        env = expr.FEnv(f.node, params=('elffile', 'start_offset', 'symboltable'), inline=False)
        ops = [o.t() for o in streams.func_ops(f.node, env) if o.kind == 'parse']
        ctx.ob('E-i', f.construct, 'header at start_offset', ops == [('parse', 'stream', struct, 'start_offset')], got=ops,
               expected=[('parse', 'stream', struct, 'start_offset')], msg='hash header not parsed at the table start')
    for q in ('ELFHashSection.__init__', 'GNUHashSection.__init__'):
        f = w.model.func(HASH, q)
        env = expr.FEnv(f.node, params=('header', 'name', 'elffile', 'symboltable'))
        calls = [c for c in ast.walk(f.node) if isinstance(c, ast.Call) and isinstance(c.func, ast.Attribute) and
                 c.func.attr == '__init__' and 'HashTable' in U(c.func)]
        got = [expr.nfs(a, env) for a in calls[0].args] if calls else None
        ctx.ob('E-i', f.construct, 'table starts at sh_offset, symbols from the linked table', got == ['self', 'elffile', 'sh_offset', 'symboltable'],
               got=got, msg='hash section does not start its table at sh_offset')
    # GNU: chain position
    f = w.model.func(HASH, 'GNUHashTable.__init__')
    env = expr.FEnv(f.node, params=('elffile', 'start_offset', 'symboltable'), inline=False)
    asg = {}
    for st in f.node.body:
        if isinstance(st, ast.Assign) and isinstance(st.targets[0], ast.Attribute):
            asg[st.targets[0].attr] = expr.nfs(st.value, env)
    ctx.ob('E-i', f.construct, '_wordsize/_xwordsize', asg.get('_wordsize') == "sizeof(Elf_word(''))" and asg.get('_xwordsize') == "sizeof(Elf_xword(''))",
           got=(asg.get('_wordsize'), asg.get('_xwordsize')), msg='element sizes are not those of Elf_word / Elf_xword')
    want = expr.spec_nf('start_offset + 4 * _wordsize + bloom_size * _xwordsize + nbuckets * _wordsize')
    ctx.ob('E-i', f.construct, '_chain_pos', asg.get('_chain_pos') == want, got=asg.get('_chain_pos'), expected=want,
           msg='chain array does not start after 4 header words, bloom_size class-sized words and nbuckets words',
           sample='GNU hash chains start at ' + want)
    _ret(ctx, w, HASH, 'ELFHashTable.get_number_of_symbols', (), 'nchains', rule='E-i', what='count = nchains')
    # SysV walk
    f = w.model.func(HASH, 'ELFHashTable.get_symbol')
    env = expr.FEnv(f.node, params=('name',), inline=False)
    asgs = [(U(st.targets[0]), expr.nfs(st.value, env)) for st in ast.walk(f.node) if isinstance(st, ast.Assign)]
    ad = {}
    for k, v in asgs:
        ad.setdefault(k, []).append(v)
    ctx.ob('E-i', f.construct, 'bucket = hash % nbuckets', ad.get('hval') == [expr.spec_nf('elf_hash(self, name) % nbuckets')], got=ad.get('hval'),
           msg='SysV bucket index is not hash mod nbuckets')
    ctx.ob('E-i', f.construct, 'chain walk', ad.get('symndx') == ['index(buckets,hval)', 'index(chains,symndx)'], got=ad.get('symndx'),
           msg='SysV walk does not start at buckets[h] and follow chains[symndx]')
    whiles = [n for n in ast.walk(f.node) if isinstance(n, ast.While)]
    ctx.ob('E-i', f.construct, 'walk until index 0', len(whiles) == 1 and expr.cond_str(whiles[0].test, env) == expr.spec_cond('symndx != 0'),
           got=[expr.cond_str(x.test, env) for x in whiles], msg='SysV walk does not end at STN_UNDEF')
    tests = [expr.cond_str(n.test, env) for n in ast.walk(f.node) if isinstance(n, ast.If)]
    ctx.ob('E-i', f.construct, 'name comparison', expr.spec_cond('sym.name == name').replace('name + -1*name', 'x') in tests or
           any('name' in t for t in tests), got=tests)
    ctx.ob('E-i', f.construct, 'nbuckets == 0 -> None', expr.spec_cond('nbuckets == 0') in tests, got=tests)
    # GNU walk
    f = w.model.func(HASH, 'GNUHashTable.get_symbol')
    env = expr.FEnv(f.node, params=('name',), inline=False)
    ad = {}
    for st in ast.walk(f.node):
        if isinstance(st, ast.Assign):
            ad.setdefault(U(st.targets[0]), []).append(expr.nfs(st.value, env))
    ctx.ob('E-i', f.construct, 'bucket = hash % nbuckets', ad.get('symidx') == [expr.spec_nf('buckets[namehash % nbuckets]').replace('index(buckets', 'index(buckets')],
           got=ad.get('symidx'), msg='GNU bucket index is not hash mod nbuckets')
    tests = [expr.cond_str(n.test, env) for n in ast.walk(f.node) if isinstance(n, ast.If)]
    ctx.ob('E-i', f.construct, 'reject below symoffset', expr.spec_cond('symidx < symoffset') in tests, got=tests,
           msg='empty-bucket test is not symidx < symoffset')
    ctx.ob('E-i', f.construct, 'hash match ignores bit 0', expr.spec_cond('cur_hash | 1 == namehash | 1') in tests, got=tests,
           msg='chain hash comparison does not ignore the end-of-chain bit on both sides')
    ctx.ob('E-i', f.construct, 'stop on low bit', 'T(%s)' % expr.spec_nf('cur_hash & 1') in tests, got=tests, msg='chain end test is not bit 0')
    # a name the bloom filter excludes is answered None without walking a chain
    nob = [expr.nfs(r, env) for c, r, p in paths.returns_with_conds(f.node)
           if expr.Facts(expr.CP(expr.cond_str(t, env), pol) for t, pol in c).get('T(_matches_bloom(self,namehash))') is False]
    ctx.ob('E-i', f.construct, 'bloom consulted', nob == ['None'], got=nob)
    seeks = [o.t() for o in streams.func_ops(f.node, env) if o.kind == 'seek']
    want = ('seek', 'stream', expr.spec_nf('_chain_pos + (symidx - symoffset) * _wordsize'), 'SEEK_SET')
    ctx.ob('E-i', f.construct, 'chain word position', want in seeks, got=seeks, expected=want,
           msg='chain word of symbol symidx is not at _chain_pos + (symidx - symoffset) * word size')
    aug = [U(n) for n in ast.walk(f.node) if isinstance(n, ast.AugAssign)]
    ctx.ob('E-i', f.construct, 'symidx advances by 1', aug == ['symidx += 1'], got=aug)
    # count recovery
    f = w.model.func(HASH, 'GNUHashTable.get_number_of_symbols')
    env = expr.FEnv(f.node, inline=False)
    ad = {}
    for st in ast.walk(f.node):
        if isinstance(st, ast.Assign):
            ad.setdefault(U(st.targets[0]), []).append(expr.nfs(st.value, env))
    ctx.ob('E-i', f.construct, 'max bucket', ad.get('max_idx') == ['max(buckets)'], got=ad.get('max_idx'))
    # the stream is positioned at the chain word of the highest bucket before the walk (the position may or may not have a name)
    ienv = expr.FEnv(f.node)
    seeks = [o.t() for o in streams.func_ops(f.node, ienv) if o.kind == 'seek']
    want_pos = expr.spec_nf('_chain_pos + (max_idx - symoffset) * _wordsize')
    ctx.ob('E-i', f.construct, 'chain position of max bucket', len(seeks) == 1 and seeks[0][2] == want_pos, got=seeks, expected=want_pos)
    rp = paths.returns_with_conds(f.node)
    rets = sorted(set(expr.nfs(r, env) for _, r, _ in rp))
    ctx.ob('E-i', f.construct, 'returns symoffset or last index + 1', rets == sorted([expr.spec_nf('max_idx + 1'), 'symoffset']), got=rets,
           msg='count recovery does not return symoffset (all buckets empty) or index of chain end + 1')
    tests = [expr.cond_str(n.test, env) for n in ast.walk(f.node) if isinstance(n, ast.If)]
    ctx.ob('E-i', f.construct, 'empty test max_idx < symoffset', expr.spec_cond('max_idx < symoffset') in tests, got=tests)
    # bloom
    f = w.model.func(HASH, 'GNUHashTable._matches_bloom')
    env = expr.FEnv(f.node, params=('H1',))
    got = [expr.nfs(r.value, env) for r in expr.returns_of(f.node)]
    want = expr.spec_cond("bloom[(H1 / elfclass) % bloom_size] & ((1 << (H1 % elfclass)) | (1 << ((H1 >> bloom_shift) % elfclass))) == "
                          "((1 << (H1 % elfclass)) | (1 << ((H1 >> bloom_shift) % elfclass)))")
    ctx.ob('E-i', f.construct, 'bloom word and bit positions', got == [want], got=got, expected=want,
           msg='bloom filter test deviates from word (H1/C) mod size, bits H1 mod C and (H1>>shift) mod C')


MUTANTS = [
    ('sym64-order', 'elf/structs.py', """                self.Elf_addr('st_value'),
                self.Elf_xword('st_size'),
            )""", """                self.Elf_xword('st_size'),
                self.Elf_addr('st_value'),
            )""", 'L-CONF'),
    ('bind-type-swap', 'elf/structs.py', """            Enum(BitField('bind', 4), **ENUM_ST_INFO_BIND),
            Enum(BitField('type', 4), **ENUM_ST_INFO_TYPE))""", """            Enum(BitField('type', 4), **ENUM_ST_INFO_TYPE),
            Enum(BitField('bind', 4), **ENUM_ST_INFO_BIND))""", 'L-BITS'),
    ('vis-pad', 'elf/structs.py', "Padding(2),\n            Enum(BitField('visibility', 3)", "Enum(BitField('visibility', 3), **ENUM_ST_VISIBILITY),\n            Padding(2),\n            Enum(BitField('visibility_', 0)", 'L-'),
    ('bloom-word', 'elf/structs.py', "Array(lambda ctx: ctx['bloom_size'], self.Elf_xword('bloom'))", "Array(lambda ctx: ctx['bloom_size'], self.Elf_word('bloom'))", 'L-CONF'),
    ('stride-sizeof', SEC, "entry_offset = self['sh_offset'] + n * self['sh_entsize']\n        entry = struct_parse(\n            self.structs.Elf_Sym,",
     "entry_offset = self['sh_offset'] + n * self.structs.Elf_Sym.sizeof()\n        entry = struct_parse(\n            self.structs.Elf_Sym,", 'I-STRIDE'),
    ('sunw-minus1', SEC, "return self['sh_size'] // self['sh_entsize'] - 1", "return self['sh_size'] // self['sh_entsize']", 'I-STRIDE'),
    ('sunw-range', SEC, "for i in range(1, self.num_symbols() + 1):", "for i in range(1, self.num_symbols()):", 'I-STRIDE'),
    ('name-field', SEC, "name = self.stringtable.get_string(entry['st_name'])", "name = self.stringtable.get_string(entry['st_value'])", 'I-STRIDE'),
    ('chainpos-word', HASH, "self.params['bloom_size'] * self._xwordsize", "self.params['bloom_size'] * self._wordsize", 'E-i'),
    ('symoffset-le', HASH, "if symidx < self.params['symoffset']:", "if symidx <= self.params['symoffset']:", 'E-i'),
    ('hash-or1', HASH, "if cur_hash | 1 == namehash | 1:", "if cur_hash == namehash | 1:", 'E-i'),
    ('sysv-chain', HASH, "symndx = self.params['chains'][symndx]", "symndx = self.params['buckets'][symndx]", 'E-i'),
    ('sysv-mod', HASH, "hval = self.elf_hash(name) % self.params['nbuckets']", "hval = self.elf_hash(name) % self.params['nchains']", 'E-i'),
    ('count-plus1', HASH, "return max_idx + 1", "return max_idx", 'E-i'),
    ('bloom-shift', HASH, "H2 = H1 >> self.params['bloom_shift']", "H2 = H1 >> self.params['bloom_size']", 'E-i'),
    ('shndx-word', SEC, "return struct_parse(self.elffile.structs.Elf_word(''), self.stream,", "return struct_parse(self.elffile.structs.Elf_half(''), self.stream,", 'I-STRIDE'),
    ('map-first-only', SEC, "self._symbol_name_map[sym.name].append(i)", "self._symbol_name_map[sym.name] = [i]", 'W-MAP'),
    ('getsym-nopos', SEC, """        entry = struct_parse(
            self.structs.Elf_Sym,
            self.stream,
            stream_pos=entry_offset)
        # Find the symbol name in the associated string table""", """        entry = struct_parse(
            self.structs.Elf_Sym,
            self.stream)
        # Find the symbol name in the associated string table""", None),
]
