"""C08 -- relocation tables decode exactly; debug-section relocation follows the psABI.

Decides (DESIGN.md §3 C08): Elf_Rel/Rela/Relr layouts and r_info splitting vs the registry macros, MIPS64 packed
layout; table addressing; RELR expansion formulas; dynamic-table wiring; every recipe row of the listed machines
(type code, width, effective formula in normal form); apply loop: bound check, unsupported-type rejection, flavour
guards, width map, read/write agreement, modulo, single writer, relocate flag.
"""
import ast
import re
from sa.canon import U
from sa.world import get_world
from sa import elfconf, layout, expr, paths, streams, dispatch, literals, registry, hrules
from sa.absint import FuncV, Node, Unknown, ClassV
from sa.report import AnalysisError
from spec import elf as S, reloc as R

REL = 'elf/relocation.py'
DYN = 'elf/dynamic.py'


def run(ctx):
    w = get_world(ctx)
    ctx.explanation.append(
        'C08: relocation entry layouts vs glibc typedefs and the MIPS64 row (L-CONF); r_info split lambdas evaluated '
        'against the ELF32/64_R_SYM/TYPE macro bodies on boundary values (L-SPLIT); accessor formulas (I-STRIDE); RELR '
        'expansion assignments in normal form (E-i); dynamic table wiring (G-SIG); recipe tables: key, width and effective '
        'calc formula vs psABI rows (G-RECIPE); apply-loop structure: dominating guards, flavour per machine, width map, '
        'read/write agreement, modulo, single writer (R-DOM/W-APPLY); G-ARCH on machine strings.')
    ctx.assumptions += ['construct build_stream writes exactly the bytes parse reads for the same struct',
                        'psABI formulas transcribed in /verif/spec/reloc.py']
    for r, d in (('L-CONF', 'layout equals registry typedef / MIPS64 row'), ('L-SPLIT', 'r_info split equals the registry macros'),
                 ('I-STRIDE', 'entry n at offset + n*entry size'), ('E-i', 'RELR expansion formulas'),
                 ('G-SIG', 'dynamic relocation table wiring'), ('G-RECIPE', 'recipe rows equal the psABI rows'),
                 ('R-DOM', 'guards dominate the uses they protect'), ('W-APPLY', 'apply loop wiring'),
                 ('G-ARCH', 'machine strings are values of get_machine_arch'), ('G-LIT', 'enum literals defined')):
        ctx.rule(r, d)
    for name in ('Elf_Rel', 'Elf_Rela'):
        ctx.guard('L-CONF', name, elfconf.check_glibc_struct, ctx, w, name)
    ctx.guard('L-CONF', 'Elf_Relr', elfconf.check_hand_struct, ctx, w, 'Elf_Relr')
    ctx.guard('L-CONF', 'MIPS64', check_mips64, ctx, w)
    ctx.floor('L-CONF', 30)
    ctx.guard('L-SPLIT', 'r_info', check_split, ctx, w)
    ctx.floor('L-SPLIT', 16)
    ctx.guard('I-STRIDE', 'tables', check_tables, ctx, w)
    ctx.floor('I-STRIDE', 8)
    ctx.guard('E-i', 'RELR', check_relr, ctx, w)
    ctx.floor('E-i', 8)
    ctx.guard('G-SIG', 'dynamic tables', check_dyn_tables, ctx, w)
    ctx.floor('G-SIG', 4)
    ctx.guard('G-RECIPE', 'recipes', check_recipes, ctx, w)
    ctx.floor('G-RECIPE', 100)
    ctx.guard('W-APPLY', 'apply loop', check_apply, ctx, w)
    ctx.floor('W-APPLY', 12)
    ctx.guard('G-LIT', 'literals', literals.glit, ctx, w, [REL])


def check_mips64(ctx, w):
    for name, rows in (('Elf_Rel', S.MIPS64_REL), ('Elf_Rela', S.MIPS64_RELA)):
        elfconf.check_hand_struct(ctx, w, name, rows=rows, machine='EM_MIPS', classes=(64,), label_extra=',EM_MIPS')
    # MIPS 32-bit uses the standard layout
    elfconf.check_glibc_struct(ctx, w, 'Elf_Rel', machines=('EM_MIPS',), construct='elf/structs.py:ELFStructs.Elf_Rel@MIPS') \
        if False else None
    st = elfconf.structs_for(w, True, 64, machine='EM_MIPS')
    ir = elfconf.irb(w).to_ir(layout.struct_attr(w, st, 'Elf_Rela'))
    vals = dict((n, f) for n, f in layout.find_fields(ir) if f[0] == 'value')
    want = {'r_info_sym': 'r_sym', 'r_info_ssym': 'r_ssym', 'r_info_type': 'r_type', 'r_info_type2': 'r_type2',
            'r_info_type3': 'r_type3',
            'r_info': expr.spec_nf('(r_sym << 32) | (r_ssym << 24) | (r_type3 << 16) | (r_type2 << 8) | r_type')}
    for k, v in sorted(want.items()):
        f = vals.get(k)
        got = None
        if f is not None:
            fn = f[2][2]
            got = expr.nfs(fn.node.body, expr.FEnv(fn.node))
        ctx.ob('L-CONF', 'elf/structs.py:ELFStructs._create_rel', 'MIPS64 %s' % k, got == v, got=got, expected=v,
               msg='synthesised MIPS64 relocation field differs from the MIPS64 ELF specification')


def check_split(ctx, w):
    g = registry.glibc()
    points32 = [0, 1, 0xff, 0x100, 0x1ff, 0xabcdef12, 0xffffffff, 0x80000000, 0x00ffff00]
    points64 = points32 + [0x100000000, 0xffffffff00000000, 0x123456789abcdef0, 0xffffffffffffffff, 0x8000000000000001]
    for cls, pts, msym, mtype in ((32, points32, 'ELF32_R_SYM', 'ELF32_R_TYPE'), (64, points64, 'ELF64_R_SYM', 'ELF64_R_TYPE')):
        for mach in ('EM_386', 'EM_X86_64'):
            st = elfconf.structs_for(w, True, cls, machine=mach)
            for sname in ('Elf_Rel', 'Elf_Rela'):
                ir = elfconf.irb(w).to_ir(layout.struct_attr(w, st, sname))
                vals = dict((n, f) for n, f in layout.find_fields(ir) if f[0] == 'value')
                for field, macro in (('r_info_sym', msym), ('r_info_type', mtype)):
                    if macro not in g.fmacros:
                        raise AnalysisError('L-SPLIT', macro, 'registry macro missing')
                    param, body = g.fmacros[macro]
                    f = vals.get(field)
                    if f is None:
                        ctx.ob('L-SPLIT', 'elf/structs.py:ELFStructs._create_rel', '%s[ELF%d] present' % (field, cls), False,
                               msg='split field missing')
                        continue
                    fn = f[2][2]
                    bad = None
                    for p in pts:
                        got = w.interp.call_func(fn, [layout.CtxV({'r_info': p})], {}, None)
                        want = registry.c_eval(re.sub(r'\b%s\b' % param, str(p), body), g.defines)
                        if cls == 32:
                            want &= 0xffffffff
                        if got != want:
                            bad = (hex(p), got, want)
                            break
                    ctx.ob('L-SPLIT', 'elf/structs.py:ELFStructs._create_rel', '%s.%s[ELF%d,%s]' % (sname, field, cls, mach), bad is None,
                           msg='r_info is split differently from the registry macro', got=bad, expected='%s: %s' % (macro, body),
                           sample='%s.%s == %s%s on %d boundary values' % (sname, field, macro, body, len(pts)))


def check_tables(ctx, w):
    f = w.model.func(REL, 'RelocationTable.get_relocation')
    env = expr.FEnv(f.node, params=('n',))
    ops = [o.t() for o in streams.func_ops(f.node, env) if o.kind == 'parse']
    want = ('parse', '_stream', 'entry_struct', expr.spec_nf('_offset + n * entry_size'))
    ctx.ob('I-STRIDE', f.construct, 'entry n', ops == [want], got=ops, expected=want, msg='relocation n is not parsed at _offset + n*entry_size')
    f = w.model.func(REL, 'RelocationTable.num_relocations')
    got = [expr.nfs(r.value, expr.FEnv(f.node)) for r in expr.returns_of(f.node)]
    ctx.ob('I-STRIDE', f.construct, 'count', got == [expr.spec_nf('_size // entry_size')], got=got)
    f = w.model.func(REL, 'RelocationTable.__init__')
    env = expr.FEnv(f.node, params=('elffile', 'offset', 'size', 'is_rela'), inline=False)
    tr = expr.assign_trace(f.node, env)
    want = {'self._stream': [('=', 'stream')], 'self._size': [('=', 'size')], 'self._offset': [('=', 'offset')],
            'self._is_rela': [('=', 'is_rela')], 'self.entry_struct': [('=', 'Elf_Rela'), ('=', 'Elf_Rel')],
            'self.entry_size': [('=', 'sizeof(entry_struct)')]}
    for k, v in sorted(want.items()):
        ctx.ob('I-STRIDE', f.construct, k, tr.get(k) == v, got=tr.get(k), expected=v, msg='relocation table constructor wiring')
    ifs = [n for n in f.node.body if isinstance(n, ast.If)]
    ok = len(ifs) == 1 and expr.cond_str(ifs[0].test, env) == 'T(is_rela)' and \
        'Elf_Rela' in U(ifs[0].body[0]) and 'Elf_Rel' in U(ifs[0].orelse[0]) and 'Elf_Rela' not in U(ifs[0].orelse[0])
    ctx.ob('I-STRIDE', f.construct, 'struct by flavour', ok, msg='RELA tables must use Elf_Rela and REL tables Elf_Rel')
    f = w.model.func(REL, 'RelocationSection.__init__')
    env = expr.FEnv(f.node, params=('header', 'name', 'elffile'))
    calls = [c for c in ast.walk(f.node) if isinstance(c, ast.Call) and U(c.func) == 'RelocationTable.__init__']
    got = [expr.nfs(a, env) for a in calls[0].args] if calls else None
    want = ['self', 'elffile', 'sh_offset', 'sh_size', expr.spec_cond("sh_type == 'SHT_RELA'")]
    ctx.ob('I-STRIDE', f.construct, 'section wiring', got == want, got=got, expected=want,
           msg='relocation section does not pass (sh_offset, sh_size, sh_type == SHT_RELA)')
    conds = [expr.cond_str(n.args[0], env) for n in ast.walk(f.node) if isinstance(n, ast.Call) and
             isinstance(n.func, ast.Name) and n.func.id == 'elf_assert' and n.args]
    ctx.ob('I-STRIDE', f.construct, 'sh_entsize == entry_size asserted', expr.spec_cond('sh_entsize == entry_size') in conds, got=conds)
    f = w.model.func(REL, 'RelocationTable.iter_relocations')
    env = expr.FEnv(f.node)
    loops = [n for n in ast.walk(f.node) if isinstance(n, ast.For)]
    ys = [n for n in ast.walk(f.node) if isinstance(n, ast.Yield)]
    ok = len(loops) == 1 and expr.nfs(loops[0].iter, env) == 'range(num_relocations(self))' and len(ys) == 1 and \
        expr.nfs(ys[0].value, env) == 'get_relocation(self,%s)' % loops[0].target.id
    ctx.ob('I-STRIDE', f.construct, 'iterates every index', ok)
    f = w.model.func(REL, 'Relocation.is_RELA')
    got = [expr.nfs(r.value, expr.FEnv(f.node)) for r in expr.returns_of(f.node)]
    ctx.ob('I-STRIDE', f.construct, "RELA iff 'r_addend' in entry", got == ["[in:'r_addend' in entry]"], got=got)
    f = w.model.func(REL, 'RelrRelocationSection.__init__')
    env = expr.FEnv(f.node, params=('header', 'name', 'elffile'))
    calls = [c for c in ast.walk(f.node) if isinstance(c, ast.Call) and U(c.func) == 'RelrRelocationTable.__init__']
    got = [expr.nfs(a, env) for a in calls[0].args] if calls else None
    ctx.ob('I-STRIDE', f.construct, 'RELR section wiring', got == ['self', 'elffile', 'sh_offset', 'sh_size', 'sh_entsize'], got=got)


def check_relr(ctx, w):
    f = w.model.func(REL, 'RelrRelocationTable.iter_relocations')
    env = expr.FEnv(f.node)
    tr = expr.assign_trace(f.node, env)
    E = '_entrysize'
    want = {
        'limit': [('=', expr.spec_nf('_offset + _size'))],
        'relr': [('=', '_offset'), ('+=', E)],
        'base': [('=', 'None'), ('=', 'entry_offset'), ('+=', E),
                 ('+=', expr.spec_nf("(8 * _entrysize - 1) * sizeof(Elf_addr(''))"))],
        'entry_offset': [('=', 'r_offset'), ('>>=', '1')],      # x = x >> 1 is normalised to x >>= 1 (sa/canon.py N2)
        'calc_offset': [('=', expr.spec_nf('base + i * _entrysize'))],
        'i': [('=', '0'), ('+=', '1')],
    }
    for k, v in sorted(want.items()):
        ctx.ob('E-i', f.construct, 'assignments of ' + k, tr.get(k) == v, got=tr.get(k), expected=v,
               msg='RELR expansion arithmetic differs from the RELR specification', sample='RELR %s: %s' % (k, v))
    whiles = sorted([n for n in ast.walk(f.node) if isinstance(n, ast.While)], key=lambda n: n.lineno)
    ctx.ob('E-i', f.construct, 'outer guard relr < limit', bool(whiles) and expr.cond_str(whiles[0].test, env) == expr.spec_cond('relr < _offset + _size'),
           got=expr.cond_str(whiles[0].test, env) if whiles else None)
    # the cursor advance is the last statement of the outer loop body (runs on every iteration)
    ok = bool(whiles) and U(whiles[0].body[-1]) == 'relr += self._entrysize'
    ctx.ob('E-i', f.construct, 'cursor advances on every iteration', ok, msg='relr += entrysize is not the unconditional last step of the loop')
    tests = [expr.cond_str(n.test, env) for n in ast.walk(f.node) if isinstance(n, ast.If)]
    # which arm does what: the first test of the low bit on a path through one outer iteration is the anchor test; an even
    # word takes the base (and is yielded as is), an odd word is a bitmap and needs a base
    low0 = expr.CP(expr.spec_cond('(entry_offset & 1) == 0'), True)
    n_even = n_odd = 0
    arms_ok = bool(whiles)
    why = None
    for p in (paths.enum_paths(whiles[0].body) if whiles else []):
        first = [c for c in (expr.CP(expr.cond_str(t, env), pol) for t, pol in p.conds()) if c[0] == low0[0]][:1]
        stm = [U(x) for x in p.stmts()]
        has_base = any(x == 'base = entry_offset' for x in stm)
        has_assert = any(x.startswith('elf_assert(base is not None') for x in stm)
        if not first:
            arms_ok, why = False, 'a path through the loop body does not test the low bit'
        elif first[0] == low0:
            n_even += 1
            if not has_base or has_assert:
                arms_ok, why = False, ('even word path', stm[:6])
        else:
            n_odd += 1
            if has_base or not has_assert:
                arms_ok, why = False, ('odd word path', stm[:6])
    ctx.ob('E-i', f.construct, 'anchor test (even word): even -> base taken; odd -> bitmap over an existing base', arms_ok and n_even >= 1 and n_odd >= 1,
           got=why or (n_even, n_odd), msg='an even RELR word is an address (anchor), an odd word a bitmap: the arms are exchanged or incomplete')
    ctx.ob('E-i', f.construct, 'bit test', expr.spec_cond('(entry_offset & 1) != 0') in tests, got=tests)
    ctx.ob('E-i', f.construct, 'bitmap exhausted test', expr.spec_cond('entry_offset == 0') in tests, got=tests)
    # order inside the bitmap loop: shift, exhausted?, test bit, i += 1
    if len(whiles) >= 2:
        zero = expr.CP(expr.spec_cond('entry_offset == 0'), True)
        bit = expr.CP(expr.spec_cond('(entry_offset & 1) != 0'), True)
        ok = True
        why = None
        kinds = set()
        for p in paths.enum_paths(whiles[1].body):
            ev = expr.path_events(p, env)
            stm = [x[1] for x in ev if x[0] == 's']
            cs = [x[1] for x in ev if x[0] == 'c']
            good = bool(ev) and ev[0] == ('s', 'entry_offset >>= 1') and len(cs) >= 1 and cs[0][0] == zero[0]
            if good and cs[0] == zero:
                kinds.add('stop')
                good = stm == ['entry_offset >>= 1'] and ev[-1] == ('end', 'break')
            elif good:
                good = len(cs) == 2 and cs[1][0] == bit[0] and stm[-1] == 'i += 1' and ev[-1] == ('end', 'fall')
                if good and cs[1] == bit:
                    kinds.add('set')
                    good = stm[1:-1] == ['calc_offset = base + i * self._entrysize', 'yield Relocation(Container(r_offset=calc_offset), self._elffile)']
                elif good:
                    kinds.add('clear')
                    good = stm == ['entry_offset >>= 1', 'i += 1']
            if not good:
                ok, why = False, ev
        ctx.ob('E-i', f.construct, 'bitmap loop order: shift, stop, test, count', ok and kinds == {'stop', 'set', 'clear'}, got=why or sorted(kinds),
               msg='bit k (k>=1) must map to base + (k-1)*entrysize: the shift precedes the test and the index counts after it')
    ys = [expr.nfs(y.value, env) for y in ast.walk(f.node) if isinstance(y, ast.Yield)]
    ctx.ob('E-i', f.construct, 'yields anchor entry and computed offsets',
           sorted(ys) == sorted(['Relocation(struct_parse(_relr_struct,stream,relr),_elffile)', 'Relocation(Container(r_offset=%s),_elffile)' % expr.spec_nf('base + i*_entrysize')]),
           got=ys)
    f = w.model.func(REL, 'RelrRelocationTable.__init__')
    env = expr.FEnv(f.node, params=('elffile', 'offset', 'size', 'entrysize'), inline=False)
    tr = expr.assign_trace(f.node, env)
    ctx.ob('E-i', f.construct, 'entry struct/size', tr.get('self._relr_struct') == [('=', 'Elf_Relr')] and
           tr.get('self._entrysize') == [('=', 'sizeof(_relr_struct)')] and tr.get('self._offset') == [('=', 'offset')] and
           tr.get('self._size') == [('=', 'size')], got=tr)


def check_dyn_tables(ctx, w):
    f = w.model.func(DYN, 'Dynamic.get_relocation_tables')
    env = expr.FEnv(f.node)
    got = {}
    for n in ast.walk(f.node):
        if isinstance(n, ast.If) and isinstance(n.test, ast.Call):
            guard = expr.nfs(n.test, env)
            for st in n.body:
                if isinstance(st, ast.Assign) and isinstance(st.targets[0], ast.Subscript) and isinstance(st.value, ast.Call):
                    key = st.targets[0].slice.value if isinstance(st.targets[0].slice, ast.Constant) else None
                    got[key] = (guard, dispatch.callee_name(st.value), [expr.nfs(a, env) for a in st.value.args])
    for key, (cls, ptr, sz, ent, flav) in sorted(R.DYN_TABLES.items()):
        g = got.get(key)
        guard = "list(iter_tags(self,'%s'))" % ptr
        args = ['elffile', "index(get_table_offset(self,'%s'),1)" % ptr, "index(next(iter_tags(self,'%s')),'d_val')" % sz]
        # d_val subscripts normalise to the field name
        args[2] = 'd_val'
        if key == 'RELR':
            args.append('d_val')
        elif key == 'JMPREL':
            args.append(expr.spec_cond("d_val == ENUM_D_TAG['DT_RELA']").replace("index(ENUM_D_TAG,'DT_RELA')", 'DT_RELA'))
        else:
            args.append('1' if flav else '0')
        ok = g is not None and g[0] == guard and g[1] == cls and g[2][0] == 'elffile' and g[2][1] == args[1]
        ctx.ob('G-SIG', f.construct, '%s table: guard, class, pointer tag' % key, ok, got=g, expected=(guard, cls, args[:2]),
               msg='dynamic relocation table is not located through its own pointer tag')
    # size/entsize tags: compare on the un-normalised source (which tag feeds which argument)
    src = U(f.node)
    for key, (cls, ptr, sz, ent, flav) in sorted(R.DYN_TABLES.items()):
        pat_sz = "next(self.iter_tags('%s'))['d_val']" % sz
        ctx.ob('G-SIG', f.construct, '%s size from %s' % (key, sz), _arg_uses(f.node, key, 2, pat_sz), msg='table size taken from the wrong tag',
               expected=pat_sz)
        if key in ('REL', 'RELA'):
            ok = _arg_const(f.node, key, 3) == flav and ("next(self.iter_tags('%s'))['d_val']" % ent) in src
            ctx.ob('G-SIG', f.construct, '%s flavour %s and entsize tag %s' % (key, flav, ent), ok)
        elif key == 'RELR':
            ctx.ob('G-SIG', f.construct, 'RELR entsize from %s' % ent, _arg_uses(f.node, key, 3, "next(self.iter_tags('%s'))['d_val']" % ent))
        else:
            ctx.ob('G-SIG', f.construct, 'JMPREL flavour from DT_PLTREL == DT_RELA',
                   _arg_uses(f.node, key, 3, "next(self.iter_tags('DT_PLTREL'))['d_val'] == ENUM_D_TAG['DT_RELA']"))


def _table_call(fnode, key):
    for n in ast.walk(fnode):
        if isinstance(n, ast.Assign) and isinstance(n.targets[0], ast.Subscript) and isinstance(n.targets[0].slice, ast.Constant) \
                and n.targets[0].slice.value == key and isinstance(n.value, ast.Call):
            return n.value
    return None


def _arg_uses(fnode, key, idx, text):
    c = _table_call(fnode, key)
    return c is not None and len(c.args) > idx and U(c.args[idx]).replace('"', "'") == text


def _arg_const(fnode, key, idx):
    c = _table_call(fnode, key)
    if c is not None and len(c.args) > idx and isinstance(c.args[idx], ast.Constant):
        return c.args[idx].value
    return '?'


def check_recipes(ctx, w):
    cv = w.interp.class_value(w.model.cls('RelocationHandler'))
    enums = w.interp.module_env('elf/enums.py').vars
    listed = []
    for tname, (enum_name, rows) in sorted(R.RECIPES.items()):
        tab = cv.attrs.get(tname)
        if not isinstance(tab, dict):
            raise AnalysisError('G-RECIPE', '%s:%s' % (REL, tname), 'recipe table not found / not evaluable')
        enum = enums.get(enum_name)
        construct = '%s:RelocationHandler.%s' % (REL, tname)
        for rname, (width, formula) in sorted(rows.items()):
            code = enum.get(rname) if isinstance(enum, dict) else None
            rec = tab.get(code) if code is not None else None
            ctx.ob('G-RECIPE', construct, rname + ' present', isinstance(rec, Node), msg='supported relocation type has no recipe (or its enum name is gone)',
                   got=repr(rec))
            if not isinstance(rec, Node):
                continue
            kw = dict(rec.kwargs)
            for i, a in enumerate(rec.args):
                kw[('bytesize', 'has_addend', 'calc_func')[i]] = a
            ctx.ob('G-RECIPE', construct, rname + ' width', kw.get('bytesize') == width, got=kw.get('bytesize'), expected=width,
                   msg='relocated field width differs from the psABI', sample='%s[%s].bytesize == %d' % (tname, rname, width))
            fn = kw.get('calc_func')
            eff = None
            if isinstance(fn, FuncV):
                fenv = expr.FEnv(fn.node, params=('v', 'S', 'P', 'A'))
                rets = expr.returns_of(fn.node)
                if len(rets) == 1:
                    p = expr.nf(rets[0].value, fenv)
                    if not kw.get('has_addend'):
                        p = dict((m, c) for m, c in p.items() if 'A' not in m)
                    eff = expr.pstr(p)
            want = expr.spec_nf(formula)
            ctx.ob('G-RECIPE', construct, rname + ' formula', eff == want, got=eff, expected=want,
                   msg='effective relocation formula differs from the psABI (v = in place, S = symbol, A = addend, P = place)',
                   sample='%s[%s] computes %s' % (tname, rname, want))
        for code, rec in tab.items():
            nm = [k for k, v in (enum or {}).items() if v == code]
            if not any(n in rows for n in nm):
                listed.append('%s[%s]' % (tname, nm or code))
    for x in listed:
        ctx.note('recipe outside the property\'s machine list (listed, not compared): %s' % x)
    # recipes only reference defined enum names: every key evaluates to an int
    for tname, tab in sorted(cv.attrs.items()):
        if tname.startswith('_RELOCATION_RECIPES_') and isinstance(tab, dict):
            bad = [k for k in tab if not isinstance(k, int)]
            ctx.ob('G-RECIPE', '%s:RelocationHandler.%s' % (REL, tname), 'keys resolve', not bad, got=bad[:3],
                   msg='recipe key does not resolve to a relocation code')


def check_apply(ctx, w):
    f = w.model.func(REL, 'RelocationHandler._do_apply_relocation')
    env = expr.FEnv(f.node, params=('stream', 'reloc', 'symtab'), inline=False)
    allp = paths.func_paths(f.node)
    ctx.analysed['apply_paths'] = len(allp)
    # (a) bound check dominates the symbol read; (b) recipe-None check dominates read and write
    bound = expr.spec_cond('r_info_sym >= num_symbols(symtab)')
    none = expr.spec_cond('recipe is None')
    ok_bound = ok_none = True
    n_ok = 0
    for p in allp:
        conds = expr.Facts(expr.CP(expr.cond_str(t, env), pol) for t, pol in p.conds())
        ops = streams.path_ops(p, env)
        src = ' '.join(U(s) for s in p.stmts())
        if 'symtab.get_symbol(' in src and conds.get(bound) is not False:
            ok_bound = False
        if any(o.kind in ('parse', 'seek') for o in ops) or 'build_stream' in src:
            if conds.get(none) is not False:
                ok_none = False
        if p.end[0] == 'fall':
            n_ok += 1
    ctx.ob('R-DOM', f.construct, 'symbol index bound check before the symbol read', ok_bound,
           msg='a path reads the symbol without passing r_info_sym < num_symbols', expected=bound)
    ctx.ob('R-DOM', f.construct, 'unsupported type rejected before the field is touched', ok_none,
           msg='a path reads/writes the field although no recipe was found', expected=none)
    silent = []
    for p in allp:
        conds = expr.Facts(expr.CP(expr.cond_str(t, env), pol) for t, pol in p.conds())
        if (conds.get(bound) is True or conds.get(none) is True) and p.end[0] != 'raise':
            silent.append(p.end[0])
    ctx.ob('R-DOM', f.construct, 'bad index / unsupported type never silently skipped', not silent, got=silent,
           msg='a path with an out-of-range symbol index or no recipe ends without raising')
    for p in allp:
        if p.end[0] == 'raise' and p.end[1] is not None:
            conds = expr.Facts(expr.CP(expr.cond_str(t, env), pol) for t, pol in p.conds())
            if conds.get(bound) is True or conds.get(none) is True:
                ctx.ob('R-DOM', f.construct, 'raises ELFRelocationError (%s)' % ('bound' if conds.get(bound) else 'type'),
                       'ELFRelocationError' in U(p.end[1]), got=U(p.end[1])[:60])
    # (c) flavour guards per machine
    chains = dispatch.find_chain(f.node, dispatch.subject_src('self.elffile.get_machine_arch()'), min_branches=3)
    if not chains:
        raise AnalysisError('W-APPLY', f.construct, 'machine dispatch not found')
    got = {}
    for b in chains[0]:
        if b.is_else or b.extra:
            continue
        # per flavour (RELA / REL), read off the paths through the machine's arm: rejected, or looked up in which recipe table
        per = {}
        for p in paths.enum_paths(b.body):
            facts = expr.Facts(expr.CP(expr.cond_str(t, env), pol) for t, pol in p.conds())
            if facts.contradiction:
                continue
            tabs = re.findall(r'self\.(_RELOCATION_RECIPES_\w+)\.get\(reloc_type', ' '.join(U(x) for x in p.stmts()))
            fl = facts.get('T(is_RELA(reloc))')
            if p.end[0] == 'raise' and not tabs:
                cl = p.conds()
                if not (cl and 'is_RELA' in expr.cond_str(cl[-1][0], env)):
                    continue    # rejected for another reason than the flavour (R_MIPS_64 with a composed type)
                out = 'raise'
            elif len(set(tabs)) == 1:
                out = tabs[0]
            else:
                continue        # a path that neither rejects nor looks a recipe up (other checks of the arm)
            for v in ((True, False) if fl is None else (fl,)):
                per.setdefault(v, set()).add(out)
        for k in b.keys:
            got[k] = dict((v, sorted(o)) for v, o in per.items())
    def _want(tab, flav):
        if flav == 'RELA':
            return {True: [tab], False: ['raise']}
        if flav == 'REL':
            return {True: ['raise'], False: [tab]}
        if flav == 'SPLIT':
            return {True: [tab[0]], False: [tab[1]]}
        return {True: [tab], False: [tab]}
    for mach, (tab, flav) in sorted(R.MACHINES.items()):
        ctx.ob('W-APPLY', f.construct, 'machine %s -> %s, flavour %s' % (mach, tab, flav), got.get(mach) == _want(tab, flav),
               got=got.get(mach), expected=_want(tab, flav), msg='recipe table or REL/RELA flavour guard for the machine differs from the psABI')
    archs = arch_values(w)
    for k in sorted(got):
        ctx.ob('G-ARCH', f.construct, k, k in archs, msg='machine string is not a value get_machine_arch can return: the branch is dead',
               got=k)
    # (d) width map
    wchains = dispatch.find_chain(f.node, dispatch.subject_src('recipe.bytesize'), min_branches=3)
    wm = {}
    else_raises = False
    if wchains:
        for b in wchains[0]:
            if b.is_else:
                else_raises = any(isinstance(s, ast.Raise) for s in b.body)
                continue
            for st in b.body:
                if isinstance(st, ast.Assign) and U(st.targets[0]) == 'value_struct':
                    m = re.match(r"^self\.elffile\.structs\.(\w+)\(''\)$", U(st.value))
                    for k in b.keys:
                        wm[k] = m.group(1) if m else U(st.value)
    ctx.ob('W-APPLY', f.construct, 'width map', wm == R.WIDTHS, got=wm, expected=R.WIDTHS, msg='bytesize is mapped to the wrong field struct')
    ctx.ob('W-APPLY', f.construct, 'other widths rejected', else_raises)
    # (e) read/write agreement, modulo; (g) calc arguments
    tr = expr.assign_trace(f.node, env)
    ctx.ob('W-APPLY', f.construct, 'read at r_offset with value_struct',
           tr.get('original_value') == [('=', 'struct_parse(value_struct,stream,r_offset)')], got=tr.get('original_value'))
    want_calc = 'calc_func(recipe,value=original_value,sym_value=sym_value,offset=r_offset,addend=ite(T(has_addend),r_addend,0))'
    rv = tr.get('relocated_value')
    ctx.ob('W-APPLY', f.construct, 'calc arguments', bool(rv) and rv[0] == ('=', want_calc), got=rv[:1] if rv else None, expected=want_calc,
           msg='calc function is not applied to (in-place value, symbol value, r_offset, addend-if-any)')
    want_mod = expr.spec_nf('relocated_value % 2 ** (bytesize * 8)')
    ctx.ob('W-APPLY', f.construct, 'result reduced modulo 2^(8*bytesize)', bool(rv) and rv[-1] in (('=', want_mod), ('%=', expr.spec_nf('2 ** (bytesize * 8)'))) and len(rv) == 2,
           got=rv[1:] if rv else None, expected=want_mod)
    ctx.ob('W-APPLY', f.construct, 'symbol value', tr.get('sym_value') == [('=', "index(get_symbol(symtab,r_info_sym),'st_value')")] or
           tr.get('sym_value') == [('=', 'st_value')], got=tr.get('sym_value'))
    ctx.ob('W-APPLY', f.construct, 'type from r_info_type', tr.get('reloc_type') == [('=', 'r_info_type')], got=tr.get('reloc_type'))
    # the tail of every successful path: parse, seek(r_offset), build_stream(relocated_value, stream)
    tails_ok = True
    for p in allp:
        if p.end[0] != 'fall':
            continue
        ops = [o.t() for o in streams.path_ops(p, env)]
        if ops != [('parse', 'stream', 'value_struct', 'r_offset'), ('seek', 'stream', 'r_offset', 'SEEK_SET')]:
            tails_ok = False
        last = U(p.stmts()[-1]) if p.stmts() else ''
        if last != 'value_struct.build_stream(relocated_value, stream)':
            tails_ok = False
    ctx.ob('W-APPLY', f.construct, 'write back at r_offset with the same struct (%d paths)' % n_ok, tails_ok and n_ok > 0,
           msg='field is not written back at r_offset with the struct it was read with')
    # (f) single writer of the section stream in this module
    writers = []
    for (mod, q), fi in w.model.funcs.items():
        if mod == 'elftools/' + REL:
            for n in ast.walk(fi.node):
                if isinstance(n, ast.Call) and isinstance(n.func, ast.Attribute) and n.func.attr in ('write', 'build_stream', 'truncate', 'writelines'):
                    writers.append((q, U(n)[:50]))
    ctx.ob('W-APPLY', REL, 'single writer', writers == [('RelocationHandler._do_apply_relocation', 'value_struct.build_stream(relocated_value, stream)')],
           got=writers, msg='another statement writes to a stream in the relocation module: bytes other than the relocated field may change')
    # apply loop: symtab from sh_link, every relocation applied
    g = w.model.func(REL, 'RelocationHandler.apply_section_relocations')
    genv = expr.FEnv(g.node, params=('stream', 'reloc_section'))
    loops = [n for n in ast.walk(g.node) if isinstance(n, ast.For)]
    ok = len(loops) == 1 and expr.nfs(loops[0].iter, genv) == 'iter_relocations(reloc_section)' and \
        [expr.nfs(s.value, genv) for s in loops[0].body if isinstance(s, ast.Expr)] == \
        ['_do_apply_relocation(self,stream,%s,get_section(elffile,sh_link))' % loops[0].target.id]
    ctx.ob('W-APPLY', g.construct, 'every relocation applied with the sh_link symbol table', ok)
    # (i) relocate flag
    h = w.model.func('elf/elffile.py', 'ELFFile._read_dwarf_section')
    henv = expr.FEnv(h.node, params=('section', 'relocate_dwarf_sections'), inline=False)
    ok = True
    for n in ast.walk(h.node):
        if isinstance(n, ast.Call) and dispatch.callee_name(n) == 'RelocationHandler':
            for p in paths.paths_reaching(h.node, n):
                cs = expr.Facts(expr.CP(expr.cond_str(t, henv), pol) for t, pol in p.conds())
                if cs.get('T(relocate_dwarf_sections)') is not True:
                    ok = False
    ctx.ob('W-APPLY', h.construct, 'relocation only when relocate_dwarf_sections', ok,
           msg='RelocationHandler is reached although relocate_dwarf_sections is false')
    # find_relocations_for_section: names .rel/.rela + section name
    g = w.model.func(REL, 'RelocationHandler.find_relocations_for_section')
    genv = expr.FEnv(g.node, params=('section',))
    tr = expr.assign_trace(g.node, genv)
    ctx.ob('W-APPLY', g.construct, 'relocation section names', tr.get('reloc_section_names') == [('=', "tuple(%s,%s)" % (expr.spec_nf("'.rel' + name"), expr.spec_nf("'.rela' + name")))],
           got=tr.get('reloc_section_names'))


def arch_values(w):
    f = w.model.func('elf/elffile.py', 'ELFFile.get_machine_arch')
    vals = set()
    for n in ast.walk(f.node):
        if isinstance(n, ast.Dict):
            for v in n.values:
                if isinstance(v, ast.Constant) and isinstance(v.value, str):
                    vals.add(v.value)
    return vals


ST = 'elf/structs.py'
MUTANTS = [
    ('rela-addend-unsigned', ST, "fields_and_addend = [*fields, self.Elf_sxword('r_addend')]", "fields_and_addend = [*fields, self.Elf_xword('r_addend')]", 'L-CONF'),
    ('sym-shift-24', ST, "lambda ctx: (ctx['r_info'] >> 32) & 0xFFFFFFFF)", "lambda ctx: (ctx['r_info'] >> 24) & 0xFFFFFFFF)", 'L-SPLIT'),
    ('type-mask-32', ST, "lambda ctx: ctx['r_info'] & 0xFF)]", "lambda ctx: ctx['r_info'] & 0xFFFF)]", 'L-SPLIT'),
    ('mips-order', ST, "self.Elf_byte('r_type3'),\n                self.Elf_byte('r_type2'),", "self.Elf_byte('r_type2'),\n                self.Elf_byte('r_type3'),", 'L-CONF'),
    ('mips-rinfo', ST, "| (ctx['r_ssym'] << 24)", "| (ctx['r_ssym'] << 16)", 'L-CONF'),
    ('stride', REL, "entry_offset = self._offset + n * self.entry_size", "entry_offset = self._offset + n * self._size", 'I-STRIDE'),
    ('rela-struct', REL, "self.entry_struct = self._elfstructs.Elf_Rela", "self.entry_struct = self._elfstructs.Elf_Rel", 'I-STRIDE'),
    ('sec-rela', REL, "header['sh_type'] == 'SHT_RELA')", "header['sh_type'] == 'SHT_REL')", 'I-STRIDE'),
    ('relr-8e', REL, "base += (8 * self._entrysize - 1) *", "base += (8 * self._entrysize) *", 'E-i'),
    ('relr-i', REL, "calc_offset = base + i * self._entrysize", "calc_offset = base + (i + 1) * self._entrysize", 'E-i'),
    ('relr-anchor', REL, "if (entry_offset & 1) == 0:", "if (entry_offset & 1) != 0:", 'E-i'),
    ('relr-base', REL, "base += self._entrysize\n", "pass\n", 'E-i'),
    ('dyn-relasz', DYN, "next(self.iter_tags('DT_RELASZ'))['d_val'], True)", "next(self.iter_tags('DT_RELSZ'))['d_val'], True)", 'G-SIG'),
    ('dyn-jmprel', DYN, "next(self.iter_tags('DT_PLTREL'))['d_val'] == ENUM_D_TAG['DT_RELA'])", "next(self.iter_tags('DT_PLTREL'))['d_val'] == ENUM_D_TAG['DT_REL'])", 'G-SIG'),
    ('dyn-rel-flavour', DYN, "next(self.iter_tags('DT_RELSZ'))['d_val'], False)", "next(self.iter_tags('DT_RELSZ'))['d_val'], True)", 'G-SIG'),
    ('calc-swap', REL, "ENUM_RELOC_TYPE_x64['R_X86_64_PC32']: _RELOCATION_RECIPE_TYPE(\n            bytesize=4, has_addend=True,\n            calc_func=_reloc_calc_sym_plus_addend_pcrel)",
     "ENUM_RELOC_TYPE_x64['R_X86_64_PC32']: _RELOCATION_RECIPE_TYPE(\n            bytesize=4, has_addend=True,\n            calc_func=_reloc_calc_sym_plus_addend)", 'G-RECIPE'),
    ('bytesize', REL, "ENUM_RELOC_TYPE_S390X['R_390_64']: _RELOCATION_RECIPE_TYPE(\n            bytesize=8,", "ENUM_RELOC_TYPE_S390X['R_390_64']: _RELOCATION_RECIPE_TYPE(\n            bytesize=4,", 'G-RECIPE'),
    ('pcrel-sign', REL, "return sym_value + addend - offset", "return sym_value + addend + offset", 'G-RECIPE'),
    ('has-addend', REL, "ENUM_RELOC_TYPE_PPC64['R_PPC64_ADDR64']: _RELOCATION_RECIPE_TYPE(\n            bytesize=8, has_addend=True,", "ENUM_RELOC_TYPE_PPC64['R_PPC64_ADDR64']: _RELOCATION_RECIPE_TYPE(\n            bytesize=8, has_addend=False,", 'G-RECIPE'),
    ('modulo', REL, "relocated_value = relocated_value % (2 ** (recipe.bytesize * 8))", "relocated_value = relocated_value % (2 ** (recipe.bytesize * 4))", 'W-APPLY'),
    ('flavour-x64', REL, "        elif self.elffile.get_machine_arch() == 'x64':\n            if not reloc.is_RELA():", "        elif self.elffile.get_machine_arch() == 'x64':\n            if False:", 'W-APPLY'),
    ('bound-gt', REL, "if reloc['r_info_sym'] >= symtab.num_symbols():", "if reloc['r_info_sym'] > symtab.num_symbols():", 'R-DOM'),
    ('none-skip', REL, "        if recipe is None:\n            raise ELFRelocationError(", "        if recipe is None:\n            return\n            raise ELFRelocationError(", 'R-DOM'),
    ('width-half', REL, "value_struct = self.elffile.structs.Elf_half('')", "value_struct = self.elffile.structs.Elf_byte('')", 'W-APPLY'),
    ('write-off', REL, "stream.seek(reloc['r_offset'])", "stream.seek(reloc['r_offset'] + 0 * 1 + 1)", 'W-APPLY'),
    ('arch-typo', REL, "elif self.elffile.get_machine_arch() == 'AArch64':", "elif self.elffile.get_machine_arch() == 'AARCH64':", None),
    ('flag-ignored', 'elf/elffile.py', "        if relocate_dwarf_sections:\n            reloc_handler", "        if True:\n            reloc_handler", 'W-APPLY'),
    ('symtab-info', REL, "symtab = self.elffile.get_section(reloc_section['sh_link'])", "symtab = self.elffile.get_section(reloc_section['sh_info'])", 'W-APPLY'),
]
